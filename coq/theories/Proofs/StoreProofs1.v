(* StoreProofs1.v — base64url and file names of the file-system backend (C14). *)
From HC Require Import Store.
From HC.Proofs Require Import HeaderProofs.
From Coq Require Import ZifyBool.
Open Scope Z_scope.

Ltac Zify.zify_post_hook ::= Z.div_mod_to_equations.

Definition is_byte (c : Z) : Prop := 0 <= c < 256.
Definition bytes_ok (s : bytes) : Prop := Forall is_byte s.

Lemma b64_val_char n : 0 <= n < 64 -> b64_val (b64_char n) = Some n.
Proof.
  intros H. unfold b64_char.
  destruct (Z.ltb_spec n 26); [unfold b64_val; replace ((65 <=? 65 + n) && (65 + n <=? 90)) with true by lia; f_equal; lia|].
  destruct (Z.ltb_spec n 52).
  { unfold b64_val. replace ((65 <=? 97 + (n - 26)) && (97 + (n - 26) <=? 90)) with false by lia.
    replace ((97 <=? 97 + (n - 26)) && (97 + (n - 26) <=? 122)) with true by lia. f_equal; lia. }
  destruct (Z.ltb_spec n 62).
  { unfold b64_val. replace ((65 <=? 48 + (n - 52)) && (48 + (n - 52) <=? 90)) with false by lia.
    replace ((97 <=? 48 + (n - 52)) && (48 + (n - 52) <=? 122)) with false by lia.
    replace ((48 <=? 48 + (n - 52)) && (48 + (n - 52) <=? 57)) with true by lia. f_equal; lia. }
  destruct (Z.eqb_spec n 62); [subst; reflexivity|]. assert (n = 63) by lia. subst. reflexivity.
Qed.

Lemma b64_char_not_marker n : 0 <= n < 64 -> b64_char n <> dir_marker.
Proof.
  intros H. unfold b64_char, dir_marker.
  destruct (Z.ltb_spec n 26); [lia|]. destruct (Z.ltb_spec n 52); [lia|].
  destruct (Z.ltb_spec n 62); [lia|]. destruct (Z.eqb_spec n 62); lia.
Qed.

Lemma L1 a b : 0 <= a < 256 -> 0 <= b < 256 -> (a / 4) * 4 + ((a mod 4) * 16 + b / 16) / 16 = a.
Proof. intros. lia. Qed.
Lemma L1b a : 0 <= a < 256 -> (a / 4) * 4 + ((a mod 4) * 16) / 16 = a.
Proof. intros; lia. Qed.
Lemma L2 a b c : 0 <= a < 256 -> 0 <= b < 256 -> 0 <= c < 256 ->
  (((a mod 4) * 16 + b / 16) mod 16) * 16 + ((b mod 16) * 4 + c / 64) / 4 = b.
Proof. intros. lia. Qed.
Lemma L2b a b : 0 <= a < 256 -> 0 <= b < 256 ->
  (((a mod 4) * 16 + b / 16) mod 16) * 16 + ((b mod 16) * 4) / 4 = b.
Proof. intros. lia. Qed.
Lemma L3 b c : 0 <= b < 256 -> 0 <= c < 256 -> ((((b mod 16) * 4 + c / 64) mod 4) * 64 + c mod 64) = c.
Proof. intros. lia. Qed.
Lemma R1 a : 0 <= a < 256 -> 0 <= a / 4 < 64. Proof. intros; lia. Qed.
Lemma R2 a b : 0 <= a < 256 -> 0 <= b < 256 -> 0 <= (a mod 4) * 16 + b / 16 < 64. Proof. intros; lia. Qed.
Lemma R3 b c : 0 <= b < 256 -> 0 <= c < 256 -> 0 <= (b mod 16) * 4 + c / 64 < 64. Proof. intros; lia. Qed.
Lemma R4 c : 0 <= c < 256 -> 0 <= c mod 64 < 64. Proof. intros; lia. Qed.
Lemma R5 a : 0 <= a < 256 -> 0 <= (a mod 4) * 16 < 64. Proof. intros; lia. Qed.
Lemma R6 b : 0 <= b < 256 -> 0 <= (b mod 16) * 4 < 64. Proof. intros; lia. Qed.

(* decoding undoes encoding, for every byte string *)
Lemma b64_roundtrip_len : forall n s, (List.length s <= n)%nat -> bytes_ok s -> b64_decode (b64_encode s) = Some s.
Proof.
  induction n as [|n IH]; intros s Hl Hs.
  - destruct s; [reflexivity|cbn in Hl; lia].
  - destruct s as [|a [|b [|c r]]].
    + reflexivity.
    + inversion Hs as [|? ? Ha _]; subst. unfold is_byte in Ha. cbn [b64_encode b64_decode].
      rewrite (b64_val_char _ (R1 a Ha)), (b64_val_char _ (R5 a Ha)). rewrite (L1b a Ha). reflexivity.
    + inversion Hs as [|? ? Ha Hs']; subst. inversion Hs' as [|? ? Hb _]; subst. unfold is_byte in *.
      cbn [b64_encode b64_decode].
      rewrite (b64_val_char _ (R1 a Ha)), (b64_val_char _ (R2 a b Ha Hb)), (b64_val_char _ (R6 b Hb)).
      rewrite (L1 a b Ha Hb), (L2b a b Ha Hb). reflexivity.
    + inversion Hs as [|? ? Ha Hs']; subst. inversion Hs' as [|? ? Hb Hs'']; subst.
      inversion Hs'' as [|? ? Hc Hr]; subst. unfold is_byte in *.
      assert (Hrec : b64_decode (b64_encode r) = Some r) by (apply IH; [cbn in Hl; lia|exact Hr]).
      change (b64_encode (a :: b :: c :: r)) with
        (b64_char (a / 4) :: b64_char ((a mod 4) * 16 + b / 16) ::
         b64_char ((b mod 16) * 4 + c / 64) :: b64_char (c mod 64) :: b64_encode r).
      change (b64_decode (b64_char (a / 4) :: b64_char ((a mod 4) * 16 + b / 16) ::
                          b64_char ((b mod 16) * 4 + c / 64) :: b64_char (c mod 64) :: b64_encode r))
        with (match b64_val (b64_char (a / 4)), b64_val (b64_char ((a mod 4) * 16 + b / 16)),
                    b64_val (b64_char ((b mod 16) * 4 + c / 64)), b64_val (b64_char (c mod 64)), b64_decode (b64_encode r) with
              | Some a0, Some b0, Some c0, Some d0, Some t =>
                  Some (a0 * 4 + b0 / 16 :: (b0 mod 16) * 16 + c0 / 4 :: (c0 mod 4) * 64 + d0 :: t)
              | _, _, _, _, _ => None end).
      rewrite (b64_val_char _ (R1 a Ha)), (b64_val_char _ (R2 a b Ha Hb)), (b64_val_char _ (R3 b c Hb Hc)),
              (b64_val_char _ (R4 c Hc)), Hrec.
      rewrite (L1 a b Ha Hb), (L2 a b c Ha Hb Hc), (L3 b c Hb Hc). reflexivity.
Qed.

Theorem b64_roundtrip : forall s, bytes_ok s -> b64_decode (b64_encode s) = Some s.
Proof. intros s Hs. apply (b64_roundtrip_len (List.length s)); [lia|exact Hs]. Qed.

Lemma b64_encode_no_marker_len : forall n s, (List.length s <= n)%nat -> bytes_ok s ->
  Forall (fun c => c <> dir_marker) (b64_encode s).
Proof.
  induction n as [|n IH]; intros s Hl Hs.
  - destruct s; [constructor|cbn in Hl; lia].
  - destruct s as [|a [|b [|c r]]]; cbn [b64_encode].
    + constructor.
    + inversion Hs as [|? ? Ha _]; subst. unfold is_byte in Ha.
      repeat constructor; apply b64_char_not_marker; [apply R1|apply R5]; exact Ha.
    + inversion Hs as [|? ? Ha Hs']; subst. inversion Hs' as [|? ? Hb _]; subst. unfold is_byte in *.
      repeat constructor; apply b64_char_not_marker; [apply R1|apply R2|apply R6]; assumption.
    + inversion Hs as [|? ? Ha Hs']; subst. inversion Hs' as [|? ? Hb Hs'']; subst.
      inversion Hs'' as [|? ? Hc Hr]; subst. unfold is_byte in *.
      constructor; [apply b64_char_not_marker, R1; exact Ha|].
      constructor; [apply b64_char_not_marker, R2; assumption|].
      constructor; [apply b64_char_not_marker, R3; assumption|].
      constructor; [apply b64_char_not_marker, R4; assumption|].
      apply IH; [cbn in Hl; lia|exact Hr].
Qed.

Lemma b64_encode_no_marker s : bytes_ok s -> Forall (fun c => c <> dir_marker) (b64_encode s).
Proof. intros Hs. apply (b64_encode_no_marker_len (List.length s)); [lia|exact Hs]. Qed.

(* ---------- chunks ---------- *)
Lemma chunks_fuel_concat n : (0 < n)%nat -> forall fuel s, (List.length s < fuel)%nat ->
  List.concat (chunks_fuel fuel n s) = s.
Proof.
  intros Hn. induction fuel as [|fuel IH]; intros s Hl; [lia|].
  cbn [chunks_fuel]. destruct s as [|c s]; [reflexivity|].
  cbn [List.concat]. rewrite IH.
  - apply firstn_skipn.
  - rewrite skipn_length. cbn [List.length] in *. lia.
Qed.

Lemma chunks_concat n s : (0 < n)%nat -> List.concat (chunks n s) = s.
Proof. intros Hn. unfold chunks. apply chunks_fuel_concat; [exact Hn|lia]. Qed.

Lemma filter_marker_app a b :
  filter (fun c => negb (c =? dir_marker)) (a ++ b) =
  filter (fun c => negb (c =? dir_marker)) a ++ filter (fun c => negb (c =? dir_marker)) b.
Proof. apply filter_app. Qed.

Lemma filter_no_marker s : Forall (fun c => c <> dir_marker) s -> filter (fun c => negb (c =? dir_marker)) s = s.
Proof.
  induction 1 as [|c s Hc Hs IH]; [reflexivity|]. cbn. destruct (Z.eqb_spec c dir_marker); [contradiction|].
  cbn. rewrite IH. reflexivity.
Qed.

Lemma concat_mark_dirs l :
  filter (fun c => negb (c =? dir_marker)) (List.concat (mark_dirs l)) =
  filter (fun c => negb (c =? dir_marker)) (List.concat l).
Proof.
  induction l as [|x l IH]; [reflexivity|].
  destruct l as [|y r]; [reflexivity|].
  change (mark_dirs (x :: y :: r)) with ((x ++ [dir_marker]) :: mark_dirs (y :: r)).
  change (List.concat ((x ++ [dir_marker]) :: mark_dirs (y :: r))) with ((x ++ [dir_marker]) ++ List.concat (mark_dirs (y :: r))).
  change (List.concat (x :: y :: r)) with (x ++ List.concat (y :: r)).
  rewrite !filter_marker_app, IH. cbn [filter]. rewrite Z.eqb_refl. cbn [negb]. rewrite app_nil_r. reflexivity.
Qed.

(* the key is recovered from the file name *)
Theorem key_of_file_path k : bytes_ok k -> key_of_path (file_path k) = Some k.
Proof.
  intros Hk. unfold key_of_path, file_path.
  pose proof (b64_encode_no_marker k Hk) as Hnm.
  destruct (b64_encode k) as [|c enc] eqn:E.
  - (* only the empty key encodes to nothing *)
    destruct k as [|a [|b [|c' r]]]; cbn in E; try discriminate. reflexivity.
  - rewrite <- E in *. destruct (List.length (b64_encode k) <=? 255)%nat.
    + cbn [List.concat]. rewrite app_nil_r. rewrite filter_no_marker by exact Hnm. apply b64_roundtrip; exact Hk.
    + rewrite concat_mark_dirs, chunks_concat by (unfold fragment_step; lia).
      rewrite filter_no_marker by exact Hnm. apply b64_roundtrip; exact Hk.
Qed.

Corollary file_path_injective k1 k2 : bytes_ok k1 -> bytes_ok k2 -> file_path k1 = file_path k2 -> k1 = k2.
Proof.
  intros H1 H2 E. pose proof (key_of_file_path k1 H1) as A. pose proof (key_of_file_path k2 H2) as B.
  rewrite E in A. congruence.
Qed.
