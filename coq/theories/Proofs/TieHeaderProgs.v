(* TieHeaderProgs.v — apply_status, the Age field written by SetAgeHeader, fix_date_header and with_conditional_headers of
   the model are what the translator derives from internal/header.go, internal/helpers.go, internal/clock.go and helpers.go
   of /repo on this run (Generated/SrcHeaderProgs.v). *)
From HC Require Import Transport.
From HC.Generated Require Import SrcHeaderProgs.
Open Scope Z_scope.

(* CacheStatus.ApplyTo, for the two fields of each of the five status values (their values are tied in TieTables.v) *)
Theorem tie_apply_to s h :
  src_apply_to (status_value s) (if status_legacy s then bs "1" else []) h = apply_status s h.
Proof. destruct s; reflexivity. Qed.

Theorem tie_set_age_header f now h : src_set_age_header f now h = hset (bs "Age") (age_header_value f now) h.
Proof. reflexivity. Qed.

Theorem tie_fix_date_header h b : src_fix_date_header h b = fix_date_header h b.
Proof. reflexivity. Qed.

Theorem tie_with_conditional_headers q stored : src_with_conditional_headers q stored = with_conditional_headers q stored.
Proof.
  destruct q as [m u hd]. unfold src_with_conditional_headers, with_conditional_headers. cbv zeta. cbn [q_method q_url q_hdr].
  destruct (hget (bs "ETag") stored) as [|a l]; destruct (hget (bs "Last-Modified") stored) as [|b l']; reflexivity.
Qed.
