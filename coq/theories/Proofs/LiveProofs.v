(* LiveProofs.v — liveness: a fresh, matching stored response is served from the store (C09). *)
From HC Require Import Transport Run Spec SpecMon.
From HC.Proofs Require Import HeaderProofs FreshProofs DecisionProofs VaryProofs RunProofs IndexProofs.
From Coq Require Import ZifyBool.
Open Scope Z_scope.

Definition age_field_wf (h : headers) : Prop :=
  hget (bs "Age") h = [] \/ all_digits (hget (bs "Age") h) = true.

(* with a parsable Date and a well-formed Age field the implementation's age is the specification's *)
Lemma entry_age_exact e now :
  valid_date (e_hdr e) -> age_field_wf (e_hdr e) -> entry_age e now = sv_age (view_of e) now.
Proof.
  intros [d Hd] Hwf. rewrite sv_age_view. unfold entry_age, current_age, spec_current_age.
  unfold date_header, spec_time. rewrite Hd. rewrite !time_sub_pos.
  assert (Hav : (if (match hget (bs "Age") (e_hdr e) with [] => 0 | s => atoi_drop_err s end) <=? max_delta_seconds
                 then Z.max (match hget (bs "Age") (e_hdr e) with [] => 0 | s => atoi_drop_err s end) 0 * second
                 else max64) = spec_age_value (e_hdr e)).
  { unfold spec_age_value, spec_delta. destruct Hwf as [E|E].
    - rewrite E. reflexivity.
    - destruct (hget (bs "Age") (e_hdr e)) as [|c s] eqn:Ea; [reflexivity|].
      rewrite E. cbn [andb negb beq].
      pose proof (digits_val_nonneg _ E) as Hnn.
      unfold atoi_drop_err. rewrite (parse_int64_digits c s E). rewrite sat_ns_cases by exact Hnn.
      destruct (digits_val 0 (c :: s) <=? max64) eqn:Hm.
      + destruct (Z.leb_spec (digits_val 0 (c :: s)) max_delta_seconds).
        * assert (max_delta_seconds <? digits_val 0 (c :: s) = false) by lia. rewrite H0. lia.
        * assert (max_delta_seconds <? digits_val 0 (c :: s) = true) by lia. rewrite H0. reflexivity.
      + assert (max64 <=? max_delta_seconds = false) by reflexivity. rewrite H.
        assert (max_delta_seconds <? digits_val 0 (c :: s) = true).
        { unfold max_delta_seconds, max64 in *. change (9223372036854775807 / second) with 9223372036. lia. }
        rewrite H0. reflexivity. }
  rewrite Hav.
  pose proof (age_value_le (e_hdr e)) as Hr. cbv zeta in Hr. rewrite Hav in Hr. destruct Hr as [[Hr0 _] Hr1].
  set (delay := Z.max 0 (Z.min max64 (e_recv_at e - e_req_at e))).
  assert (0 <= delay <= max64) by (unfold delay, max64; lia).
  rewrite (go_sat_add_spec (spec_age_value (e_hdr e)) delay) by lia.
  pose proof (sat_add_range (spec_age_value (e_hdr e)) delay ltac:(lia) ltac:(lia)).
  rewrite go_sat_add_spec; [reflexivity| |]; unfold max64 in *; lia.
Qed.

(* the implementation's lifetime is the documented lifetime *)
Lemma response_lifetime_doc e :
  valid_date (e_hdr e) -> response_lifetime e (parse_cc (e_hdr e)) = doc_lifetime (e_status e) (e_hdr e).
Proof.
  intros [d Hd]. unfold response_lifetime, doc_lifetime, spec_lifetime_with, spec_cc.
  set (cc := parse_cc (e_hdr e)).
  unfold resp_max_age_present, has_token, resp_max_age. rewrite duration_directive_spec.
  unfold sd_duration, sd_arg, amem.
  destruct (alookup (bs "max-age") cc) as [v|] eqn:Ema; cbn [option_map negb].
  - destruct (spec_delta (parse_quoted_string v)) as [s|] eqn:Es; cbn [option_map]; [|reflexivity].
    assert (0 <= s).
    { unfold spec_delta in Es. destruct (all_digits _ && _) eqn:E; [|discriminate]. inversion Es; subst.
      apply Bool.andb_true_iff in E as [E _]. apply digits_val_nonneg; exact E. }
    assert (0 <= sat_ns s) by (unfold sat_ns, max64, second; lia).
    destruct (Z.leb_spec 0 (sat_ns s)); lia.
  - unfold expires_header, date_header, spec_time. rewrite Hd.
    destruct (hget (bs "Expires") (e_hdr e)) as [|c ex] eqn:Eex.
    + unfold heuristic_freshness, resp_public, has_token, sd_has.
      destruct (is_heuristically_cacheable (e_status e) || amem (bs "public") cc); [|reflexivity].
      destruct (raw_time (hget (bs "Last-Modified") (e_hdr e))) as [lm|]; [|reflexivity].
      destruct (Z.ltb_spec lm d); [|reflexivity].
      unfold time_sub, sat64, min64, max64. f_equal. lia.
    + destruct (raw_time (c :: ex)) as [x|]; cbv beta iota; [|reflexivity].
      destruct (Z.ltb_spec d x); [|reflexivity].
      unfold time_sub, sat64, min64, max64; lia.
Qed.

(* C09, the decision: fresh by more than a second, nothing demanding validation => serve from the store *)
Theorem fresh_is_served q e now :
  valid_date (e_hdr e) -> age_field_wf (e_hdr e) -> e_status e <> 304 ->
  let s := view_of e in
  let rcc := parse_cc (q_hdr q) in
  let life0 := doc_lifetime (e_status e) (e_hdr e) in
  let life := match sd_duration (bs "max-age") rcc with Some m => Z.min life0 m | None => life0 end in
  let min_fresh := match sd_duration (bs "min-fresh") rcc with Some m => m | None => 0 end in
  sat_add (sat_add (sv_age s now) min_fresh) second < life ->
  needs_validation_with life0 s q now = false ->
  decide_hit q e now = DServe.
Proof.
  intros Hd Hwf Hs s rcc life0 life min_fresh Hfresh Hnv.
  pose proof (entry_age_exact e now Hd Hwf) as Hage.
  pose proof (response_lifetime_doc e Hd) as Hlife. fold life0 in Hlife.
  pose proof (entry_age_range e now) as Har.
  pose proof (response_lifetime_range e Hd Hs) as Hlr. rewrite Hlife in Hlr.
  assert (Hma : sd_duration (bs "max-age") rcc = req_max_age rcc) by (symmetry; apply duration_directive_spec).
  assert (Hmf : sd_duration (bs "min-fresh") rcc = req_min_fresh rcc) by (symmetry; apply duration_directive_spec).
  assert (Hmfnn : 0 <= min_fresh).
  { unfold min_fresh. rewrite Hmf. destruct (req_min_fresh rcc) as [mf|] eqn:Emf; [pose proof (req_min_fresh_range _ _ Emf)|]; lia. }
  assert (Hsa : 0 <= sv_age s now) by (unfold s; rewrite <- Hage; lia).
  assert (Hn0 : req_max_age rcc <> Some 0).
  { intros E. unfold life in Hfresh. rewrite Hma, E in Hfresh. unfold sat_add, second, max64 in Hfresh. lia. }
  unfold decide_hit. fold rcc. set (cc := parse_cc (e_hdr e)).
  rewrite (calc_fresh_normal e rcc cc now Hn0). cbv zeta.
  fold cc in Hlife. rewrite Hlife.
  set (age := entry_age e now) in *.
  assert (Hcap : capped_life rcc life0 = life).
  { unfold capped_life, life. rewrite Hma. destruct (req_max_age rcc) as [m|] eqn:Em; [|reflexivity].
    pose proof (req_max_age_range _ _ Em). assert (m <> 0) by congruence.
    assert (Hlt : (0 <? m) = true) by lia. rewrite Hlt. reflexivity. }
  rewrite Hcap.
  assert (Hlife_le : life <= life0).
  { unfold life. destruct (sd_duration (bs "max-age") rcc); lia. }
  assert (Hal : age + min_fresh + second <= life).
  { fold s in Hage. rewrite <- Hage in Hfresh. fold age in Hfresh.
    generalize dependent min_fresh. intros mfv Hfresh Hmfv.
    unfold sat_add, second, max64 in *. lia. }
  pose proof Hmfnn as Hmf0.
  (* the flags *)
  assert (Hmfs : min_fresh_stale rcc life age = false).
  { unfold min_fresh_stale. unfold min_fresh in Hal. rewrite Hmf in Hal.
    destruct (req_min_fresh rcc) as [mf|] eqn:Emf; [|reflexivity].
    pose proof (req_min_fresh_range _ _ Emf).
    rewrite wrap64_id by (unfold min64, max64, second in *; lia). unfold second in *. lia. }
  rewrite Hmfs.
  assert (Hst : stale_after_max_stale rcc life age = false).
  { unfold stale_after_max_stale. assert ((life <=? age) = false) by (unfold second in *; lia). rewrite H. reflexivity. }
  rewrite Hst.
  (* must-validate is false *)
  unfold hit_must_validate. cbn [f_stale f_expired f_req_max_age_exceeded]. fold rcc cc.
  unfold needs_validation_with in Hnv. unfold spec_cc in Hnv. fold rcc in Hnv.
  replace (parse_cc (sv_hdr s)) with cc in Hnv by reflexivity.
  apply Bool.orb_false_iff in Hnv as [Hnv Hex]. apply Bool.orb_false_iff in Hnv as [Hnv Hnc].
  apply Bool.orb_false_iff in Hnv as [Hunq Hmr].
  assert (H1 : (match resp_no_cache cc with Some _ => true | None => false end &&
                negb (match hit_qualified e with Some _ => true | None => false end)) = false).
  { unfold sv_no_cache_unqualified, sd_arg in Hunq. unfold hit_qualified, resp_no_cache. fold cc.
    destruct (alookup (bs "no-cache") cc) as [v|]; cbn [option_map] in *; [|reflexivity].
    unfold no_cache_fields. destruct (parse_quoted_string v); [discriminate|reflexivity]. }
  rewrite H1.
  assert (H2 : ((false || (life0 <=? age)) && resp_must_revalidate cc) = false).
  { assert ((life0 <=? age) = false) by (unfold second in *; lia). rewrite H. reflexivity. }
  rewrite H2.
  change (sd_has (bs "no-cache") rcc) with (req_no_cache rcc) in Hnc. rewrite Hnc.
  assert (H3 : match req_max_age rcc with Some m => (0 <? m) && (m <=? age) | None => false end = false).
  { destruct (req_max_age rcc) as [m|] eqn:Em; [|reflexivity].
    unfold life in Hal. rewrite Hma in Hal. unfold second in *. lia. }
  rewrite H3. cbn [orb negb]. reflexivity.
Qed.

(* C09, the matcher: a request that selects the same variant as the storing request matches the reference *)
Lemma resolved_match_complete m h0 h :
  (forall n v, In (n, v) m -> norm_first n h0 = Some v /\ norm_first n h = Some v) ->
  resolved_match m h = Some true.
Proof.
  induction m as [|[f v] m IH]; intros H; [reflexivity|]. cbn.
  destruct (H f v (or_introl eq_refl)) as [_ H1]. fold (norm_first f h). rewrite H1, beq_refl.
  apply IH. intros n v' Hin; apply H; right; exact Hin.
Qed.

Theorem ref_match_complete names h0 h r :
  resolve_names names h0 [] = Some (r_resolved r) ->
  ~ In (bs "*") names -> go_trim (r_vary r) <> bs "*" ->
  (forall n, In n names -> exists v, norm_first n h0 = Some v /\ norm_first n h = Some v) ->
  ref_matches r h = Some true.
Proof.
  intros Hres Hstar Hv Hall. unfold ref_matches.
  destruct (resolve_names_bindings names h0 [] (r_resolved r) Hres) as (Hb & Hn & _); [intros n v H; discriminate|].
  assert (Hkeys : forall n v, In (n, v) (r_resolved r) -> In n names).
  { (* every key of the resolved map is one of the names *)
    assert (G : forall names acc res, resolve_names names h0 acc = Some res ->
                forall n v, In (n, v) res -> In n names \/ exists v', In (n, v') acc).
    { clear. induction names as [|n0 names IH]; intros acc res H n v Hin; cbn in H.
      - inversion H; subst. right; eauto.
      - destruct (match first_line n0 h0 with Some x => normalize_header_value n0 x | None => Some [] end) as [x|]; [|discriminate].
        destruct (IH _ _ H n v Hin) as [Hl|[v' Hl]]; [left; right; exact Hl|].
        assert (Ha : forall (l : list (bytes * bytes)) k x0 n1 v1, In (n1, v1) (aset k x0 l) -> n1 = k \/ In (n1, v1) l).
        { induction l as [|[k1 w1] l IHl]; intros k x0 n1 v1 Hi; cbn in Hi.
          - destruct Hi as [Hi|[]]. inversion Hi; auto.
          - destruct (beq k k1) eqn:E; destruct Hi as [Hi|Hi].
            + inversion Hi; auto.
            + right; right; exact Hi.
            + right; left; exact Hi.
            + destruct (IHl _ _ _ _ Hi); auto. right; right; assumption. }
        destruct (Ha _ _ _ _ _ Hl) as [E|Hl']; [left; left; symmetry; exact E|right; eauto]. }
    intros n v Hin. destruct (G _ _ _ Hres n v Hin) as [H|[v' []]]; exact H. }
  assert (Hstar' : amem (bs "*") (r_resolved r) = false).
  { unfold amem. destruct (alookup (bs "*") (r_resolved r)) eqn:E; [|reflexivity].
    destruct (alookup_in _ _ _ E) as (k' & Hin & Hk). subst k'. exfalso. apply Hstar. eapply Hkeys; exact Hin. }
  rewrite Hstar'. destruct (beq (go_trim (r_vary r)) (bs "*")) eqn:Eb; [apply beq_eq in Eb; contradiction|].
  cbn [orb]. apply (resolved_match_complete _ h0).
  intros n v Hin.
  pose proof (resolve_names_nodup names h0 [] _ Hres NK_nil) as Hnd.
  pose proof (nodup_in_lookup _ _ _ Hnd Hin) as Hl.
  destruct (Hall n (Hkeys _ _ Hin)) as (v' & H0 & H1).
  rewrite (Hb _ _ Hl) in H0. inversion H0; subst. split; [apply Hb; exact Hl|exact H1].
Qed.

(* C09, sequential semantics: the index lists a reference the matcher selects, its entry is there and the
   decision is to serve => the exchange performs no origin call and returns that entry's representation *)
Theorem run_hit q w refs sorted i r e :
  is_request_method_understood q = true ->
  get_refs (w_store w) (make_url_key (q_url q)) = Some refs ->
  drop_nil_refs refs <> [] ->
  vary_headers_match (strip_refs (drop_nil_refs refs)) (q_hdr q) = Some (sorted, Some i) ->
  nth_error sorted (Z.to_nat i) = Some r ->
  get_entry (w_store w) (r_id r) = Some e ->
  decide_hit q e (w_clock w) = DServe ->
  exists w' out, run None (round_trip q) w = (Done (OResp out), w') /\
    w_calls w' = w_calls w /\ w_clock w' = w_clock w /\ w_store w' = w_store w /\
    p_status out = e_status e /\ p_body out = e_body e.
Proof.
  intros Hm Hg Hne Hv Hn He Hdec.
  unfold round_trip, get_refs_clean. rewrite Hm. cbn [negb run]. rewrite Hg. cbn [option_map].
  destruct (drop_nil_refs refs) as [|x l] eqn:Ed; [congruence|].
  assert (Hnn : has_nil_ref (x :: l) = false).
  { rewrite <- Ed. clear. induction refs as [|[r|] l IH]; cbn; auto. }
  rewrite Hnn, Hv, Hn. cbn [run]. cbn [w_store log_event set_store]. rewrite He.
  unfold handle_cache_hit. cbn [run]. cbn [w_clock log_event set_store]. rewrite Hdec. cbn [run].
  eexists _, _. split; [reflexivity|]. cbn. repeat split; reflexivity.
Qed.

(* ---------- store, then reuse ---------- *)
(* Once StoreResponse has run for (q, r) under a key without an index, every later world in which the index of that
   key and the entry are still what it wrote answers a request q' for the same key, which the written reference
   matches and for which the decision is to serve, from the store: no origin call, r's status and body. *)
Theorem store_then_hit q q' r k a b w r1 w1 resolved :
  make_url_key (q_url q') = k -> is_request_method_understood q' = true ->
  normalize_vary (join [44] (hvalues (bs "Vary") (remove_hop_by_hop (p_hdr r)))) (q_hdr q) = Some resolved ->
  p_body_ok r = true ->
  run None (store_response q r k [] a b (-1)) w = (Done r1, w1) ->
  let rs := with_hdr r (remove_hop_by_hop (p_hdr r)) in
  let id := make_vary_key k resolved in
  let e := entry_of id rs a b in
  let nr := {| r_id := id; r_vary := join [44] (hvalues (bs "Vary") (p_hdr rs)); r_resolved := resolved; r_recv := date_header (p_hdr rs) |} in
  r1 = rs /\
  forall w2, get_refs (w_store w2) k = get_refs (w_store w1) k -> get_entry (w_store w2) id = get_entry (w_store w1) id ->
    ref_matches nr (q_hdr q') = Some true -> decide_hit q' e (w_clock w2) = DServe ->
    exists w3 out, run None (round_trip q') w2 = (Done (OResp out), w3) /\
      w_calls w3 = w_calls w2 /\ w_clock w3 = w_clock w2 /\ w_store w3 = w_store w2 /\
      p_status out = p_status r /\ p_body out = p_body r.
Proof.
  intros Hk Hm Hv Hb Hrun rs id e nr.
  unfold store_response in Hrun. cbn [p_hdr with_hdr p_body_ok] in Hrun. rewrite Hv, Hb in Hrun.
  cbn [run] in Hrun. injection Hrun as <- <-. split; [reflexivity|].
  cbn [w_store set_store].
  intros w2 Hrefs Hent Hmatch Hdec.
  assert (Hg : get_refs (w_store w2) k = Some [Some nr]).
  { rewrite Hrefs. rewrite get_refs_aset_same. change ((-1 <? 0) || (Z.of_nat (List.length (@nil (option ref))) <=? -1)) with true. cbv iota.
    cbn [app]. unfold unique_refs. cbn [rev app unique_refs_rev in_names existsb]. reflexivity. }
  assert (He : get_entry (w_store w2) id = Some e).
  { rewrite Hent. rewrite get_entry_aset_other by apply vary_key_neq. apply get_entry_aset_same. }
  destruct (run_hit q' w2 [Some nr] [nr] 0 nr e) as (w3 & out & Hr & Hc & Hcl & Hs & Hst & Hbo); try assumption.
  - rewrite Hk. exact Hg.
  - cbn. discriminate.
  - cbn [drop_nil_refs strip_refs]. unfold vary_headers_match, sort_refs. cbn [isort find_match].
    cbn. rewrite Hmatch. reflexivity.
  - reflexivity.
  - exists w3, out. repeat split; assumption.
Qed.
