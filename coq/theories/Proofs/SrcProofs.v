(* SrcProofs.v — where a stored entry comes from, field by field, along every sequential history.

   [Src GX e]: the stored entry e is exactly what StoreResponse files for the response r that one origin call of the
   history delivered (status, body, the header block after FixDateHeader and the removal of hop-by-hop fields, and as
   request / response instants the start / end of that very call), or such an entry freshened — any number of times —
   by the 304 another call of the history delivered (header block merged by updateStoredHeaders, instants of the
   validating call).  Nothing else is ever in the store ([InvX]), and a RoundTrip that returns a response without
   contacting the origin returns the synthesised 504 or the served form of such an entry, chosen by [decide_hit] at
   the instant the exchange started ([exchange_safeX]).  With the decision theorems (DecisionProofs.v) this lifts C01 /
   C11 from "for every stored entry" to "for every history": the header fields and instants that ages and lifetimes are
   computed from cannot be anything but what the origin sent and when.

   Same scheme as ProvProofs.v / TimeProofs.v: a tree predicate [SafeX] with a clock context (what is known about the
   clock and the last origin reply since the last reading / call), a flag saying whether the path has passed an origin
   call, and a semantic preservation lemma for [run], [exchange], [run_history]. *)
From HC Require Import Transport Run.
From HC.Proofs Require Import Paths HeaderProofs RunProofs ProvProofs TimeProofs.
Open Scope Z_scope.

Inductive xctx := XU | XR (t : Z) | XA (a : Z) (q : request) (rep : origin_reply).
(* after an origin call: its start reading, request and reply are remembered when the clock had just been read *)
Definition after_callx (c : xctx) (q : request) (rep : origin_reply) : xctx :=
  match c with XR a => XA a q rep | _ => XU end.

(* roundTripTimed hands on the reply with a repaired Date *)
Definition fixed (r : response) (b : Z) : response := with_hdr r (fix_date_header (p_hdr r) b).
(* what StoreResponse writes for a response: hop-by-hop fields removed, the instants of the exchange *)
Definition stored_form (id : bytes) (r : response) (a b : Z) : stored_entry :=
  entry_of id (with_hdr r (remove_hop_by_hop (p_hdr r))) a b.
Definition freshened (e0 : stored_entry) (r304 : response) : response :=
  response_of (entry_with_hdr e0 (update_stored_headers (e_hdr e0) (p_hdr r304))).

(* the response handed to the caller when a stored entry is used without contacting the origin *)
Definition served_outcome (q : request) (e : stored_entry) (now : Z) : outcome :=
  let f := calculate_freshness e (parse_cc (q_hdr q)) (parse_cc (e_hdr e)) now in
  let h1 := hset (bs "Age") (age_header_value f now) (strip_qualified (hit_qualified e) (e_hdr e)) in
  match decide_hit q e now with
  | DServeSWR => OResp (response_of (entry_with_hdr e (apply_status STALE h1)))
  | _ => serve_from_cache e f now (hit_qualified e)
  end.

Section SafeX.
  Variable GX : request -> Z -> Z -> response -> Prop.
     (* [GX q a b r]: an origin call with request q started at a, ended at b and delivered the response r *)

  Inductive Src : stored_entry -> Prop :=
  | Src_full e q a b r : GX q a b r -> p_status r <> 304 ->
      e = stored_form (e_id e) (fixed r b) a b -> Src e
  | Src_fresh e e0 q a b r : Src e0 -> GX q a b r -> p_status r = 304 ->
      e = stored_form (e_id e) (freshened e0 (fixed r b)) a b -> Src e.

  Definition now_okx (c : xctx) (t : Z) : Prop :=
    match c with XU => True | XR t0 => t = t0 | XA a q rep => forall r, rep = RResp r -> GX q a t r end.

  Inductive SafeX {A : Type} (L : bool -> xctx -> A -> Prop) : bool -> xctx -> prog A -> Prop :=
  | SX_Ret cd c a : L cd c a -> SafeX L cd c (Ret a)
  | SX_GetRefs cd c k f : (forall ans, SafeX L cd c (f ans)) -> SafeX L cd c (GetRefs k f)
  | SX_GetEntry cd c k f : (forall ans, (forall e, ans = Some e -> Src e) -> SafeX L cd c (f ans)) -> SafeX L cd c (GetEntry k f)
  | SX_SetEntry cd c k e f : Src e -> SafeX L cd c f -> SafeX L cd c (SetEntry k e f)
  | SX_SetRefs cd c k l f : SafeX L cd c f -> SafeX L cd c (SetRefs k l f)
  | SX_Del cd c k f : SafeX L cd c f -> SafeX L cd c (Del k f)
  | SX_Origin cd c q f : (forall rep, SafeX L true (after_callx c q rep) (f rep)) -> SafeX L cd c (Origin q f)
  | SX_Now cd c f : (forall t, now_okx c t -> SafeX L cd (XR t) (f t)) -> SafeX L cd c (Now f)
  | SX_Spawn cd c p f : SafeX (fun _ _ _ => True) false XU p -> SafeX L cd c f -> SafeX L cd c (Spawn p f)
  | SX_Crash cd c : SafeX L cd c Crash
  | SX_Unmodelled cd c : SafeX L cd c Unmodelled.

  Definition SafeX_inv {A} (L : bool -> xctx -> A -> Prop) (cd : bool) (c : xctx) (p : prog A) : Prop :=
    match p with
    | Ret a => L cd c a
    | GetRefs k f => forall ans, SafeX L cd c (f ans)
    | GetEntry k f => forall ans, (forall e, ans = Some e -> Src e) -> SafeX L cd c (f ans)
    | SetEntry k e f => Src e /\ SafeX L cd c f
    | SetRefs k l f => SafeX L cd c f
    | Del k f => SafeX L cd c f
    | Origin q f => forall rep, SafeX L true (after_callx c q rep) (f rep)
    | Now f => forall t, now_okx c t -> SafeX L cd (XR t) (f t)
    | Spawn b f => SafeX (fun _ _ _ => True) false XU b /\ SafeX L cd c f
    | Crash => True
    | Unmodelled => True
    end.
  Lemma SafeX_inversion {A} L cd c (p : prog A) : SafeX L cd c p -> SafeX_inv L cd c p.
  Proof. destruct 1; cbn; auto. Qed.

  Lemma SafeX_bind {A B} (L : bool -> xctx -> A -> Prop) (M : bool -> xctx -> B -> Prop) cd c (p : prog A) (f : A -> prog B) :
    SafeX L cd c p -> (forall cd' c' a, L cd' c' a -> SafeX M cd' c' (f a)) -> SafeX M cd c (bind p f).
  Proof. intros Hp Hf. induction Hp; cbn [bind]; try (constructor; auto; fail). apply Hf. assumption. Qed.

  (* leaves of programs that run after an origin call and whose result is not the subject *)
  Definition Lcalled {A} : bool -> xctx -> A -> Prop := fun cd _ _ => cd = true.

  (* ---------- the programs of the transport ---------- *)
  (* StoreResponse hands back the response it was given, hop-by-hop fields removed; when the body could not be read,
     without it *)
  Definition Lstored (r : response) : bool -> xctx -> response -> Prop := fun cd _ r1 =>
    cd = true /\ p_status r1 = p_status r /\ (p_body r1 = p_body r \/ p_body r1 = -1).

  Lemma store_response_safeX c q r u refs a b i : (forall id, Src (stored_form id r a b)) ->
    SafeX (Lstored r) true c (store_response q r u refs a b i).
  Proof.
    intros H. unfold store_response. destruct (normalize_vary _ _); [|constructor].
    cbn [p_body_ok with_hdr]. destruct (p_body_ok r).
    - apply SX_SetEntry; [apply H|]. apply SX_SetRefs. constructor. split; [reflexivity|split; [reflexivity|left; reflexivity]].
    - apply SX_SetRefs. constructor. split; [reflexivity|split; [reflexivity|right; reflexivity]].
  Qed.

  Lemma del_all_safeX {A} (L : bool -> xctx -> A -> Prop) cd c ks : forall done (f : list bytes -> prog A),
    (forall d, SafeX L cd c (f d)) -> SafeX L cd c (del_all ks done f).
  Proof. induction ks as [|k ks IH]; intros done f H; cbn; auto. destruct (existsb _ _); auto. constructor; auto. Qed.

  Lemma invalidate_locations_safeX {A} (L : bool -> xctx -> A -> Prop) cd c ru h hs : forall done (f : list bytes -> prog A),
    (forall d, SafeX L cd c (f d)) -> SafeX L cd c (invalidate_locations hs ru h done f).
  Proof.
    induction hs as [|hn hs IH]; intros done f Hf; cbn [invalidate_locations]; auto.
    destruct (hget hn h); [apply IH, Hf|]. destruct (parse_url _); [|constructor].
    destruct (same_origin _ _); [|apply IH, Hf].
    unfold get_refs_clean. constructor. intros ans. destruct (ref_ids _); [|constructor].
    apply del_all_safeX. intros d'. apply IH, Hf.
  Qed.

  Lemma invalidate_cache_safeX {A} (L : bool -> xctx -> A -> Prop) cd c ru h refs key (f : prog A) :
    SafeX L cd c f -> SafeX L cd c (invalidate_cache ru h refs key f).
  Proof.
    intros Hf. unfold invalidate_cache. destruct (ref_ids _); [|constructor].
    apply del_all_safeX. intros d. apply invalidate_locations_safeX. intros d'. apply del_all_safeX. auto.
  Qed.

  (* what roundTripTimed tells its continuation about the reply it hands on *)
  Definition reply_known (q : request) (a b : Z) (rep : origin_reply) : Prop :=
    forall r', rep = RResp r' -> exists r, r' = fixed r b /\ GX q a b r.

  (* ---------- what HandleValidationResponse returns ---------- *)
  (* the validation failed in a way stale-if-error covers: no reply, or 500 / 502 / 503 / 504 *)
  Definition sie_failure (rep : origin_reply) : Prop :=
    rep = RErr \/ exists r', rep = RResp r' /\ is_stale_error_allowed (p_status r') = true.
  Definition stale_if_error_outcome (e : stored_entry) (f : freshness) (now : Z) : outcome :=
    OResp (response_of (entry_with_hdr e (apply_status STALE (hset (bs "Age") (age_header_value f now)
      (strip_qualified (match resp_no_cache (parse_cc (e_hdr e)) with Some raw => no_cache_fields raw | None => None end) (e_hdr e)))))).

  Definition hvr_leaf (stored : stored_entry) (f : freshness) (cc_req : directives) (no_stale : bool)
             (rep : origin_reply) (o : outcome) : Prop :=
    (* the call failed and nothing stale may be used: the failure *)
    (rep = RErr /\ o = OErr) \/
    (* 304: the stored response, freshened, marked REVALIDATED *)
    (exists r' r1, rep = RResp r' /\ p_status r' = 304 /\
       o = OResp (with_hdr r1 (apply_status REVALIDATED (p_hdr r1))) /\
       p_status r1 = e_status stored /\ (p_body r1 = e_body stored \/ p_body r1 = -1)) \/
    (* stale-if-error: only when validation was not demanded, after a covered failure, inside the window *)
    (exists now, no_stale = false /\ sie_failure rep /\
       can_stale_on_error f [resp_stale_if_error (parse_cc (e_hdr stored)); req_stale_if_error cc_req] now = true /\
       o = stale_if_error_outcome stored f now) \/
    (* anything else: the origin's own reply, marked MISS (stored) or BYPASS *)
    (exists r' r1 st, rep = RResp r' /\ p_status r' <> 304 /\ (st = MISS \/ st = BYPASS) /\
       o = OResp (with_hdr r1 (apply_status st (p_hdr r1))) /\ p_status r1 = p_status r').

  Definition Lhvr (ctx : reval_ctx) (rep : origin_reply) : bool -> xctx -> outcome -> Prop := fun cd _ o =>
    cd = true /\ hvr_leaf (rc_stored ctx) (rc_fresh ctx) (rc_cc_req ctx) (rc_no_stale ctx) rep o.

  Lemma hvr_safeX c ctx q rep : is_get (q_method q) = true -> Src (rc_stored ctx) ->
    reply_known q (rc_start ctx) (rc_end ctx) rep ->
    SafeX (Lhvr ctx rep) true c (handle_validation_response ctx q rep).
  Proof.
    intros Hget Hst Hrep. unfold handle_validation_response. rewrite Hget. cbn [andb].
    destruct rep as [|r'].
    - destruct (rc_no_stale ctx) eqn:Ens; cbn [negb andb]; [constructor; split; [reflexivity|left; split; reflexivity]|].
      constructor. intros now _. destruct (can_stale_on_error _ _ _) eqn:Ec; constructor; (split; [reflexivity|]).
      + right. right. left. exists now. split; [exact Ens|split; [left; reflexivity|split; [exact Ec|reflexivity]]].
      + left. split; reflexivity.
    - destruct (Hrep r' eq_refl) as (r & -> & Hg).
      destruct (p_status (fixed r (rc_end ctx)) =? 304) eqn:E304.
      + apply Z.eqb_eq in E304.
        destruct (_ || _).
        * constructor. split; [reflexivity|]. right. left. eexists _, _. split; [reflexivity|split; [exact E304|split; [reflexivity|split; [reflexivity|left; reflexivity]]]].
        * eapply SafeX_bind; [apply store_response_safeX|].
          -- intros id. eapply Src_fresh; [exact Hst|exact Hg|exact E304|reflexivity].
          -- intros cd' c' r1 (-> & Hs1 & Hb1). constructor. split; [reflexivity|]. right. left.
             eexists _, r1. split; [reflexivity|split; [exact E304|split; [reflexivity|split; [exact Hs1|exact Hb1]]]].
      + apply Z.eqb_neq in E304.
        assert (Hafter : forall c', SafeX (Lhvr ctx (RResp (fixed r (rc_end ctx)))) true c'
          (let cc_resp := parse_cc (p_hdr (fixed r (rc_end ctx))) in
           if can_store_response (fixed r (rc_end ctx)) (rc_cc_req ctx) cc_resp
           then r1 <- store_response q (fixed r (rc_end ctx)) (rc_url_key ctx) (rc_refs ctx) (rc_start ctx) (rc_end ctx) (rc_ref_index ctx);;
                Ret (OResp (with_hdr r1 (apply_status MISS (p_hdr r1))))
           else if is_unsafe_method (q_method q) && is_non_error_status (p_status (fixed r (rc_end ctx)))
                then invalidate_cache (q_url q) (p_hdr (fixed r (rc_end ctx))) (rc_refs ctx) (rc_url_key ctx)
                       (Ret (OResp (with_hdr (fixed r (rc_end ctx)) (apply_status BYPASS (p_hdr (fixed r (rc_end ctx)))))))
                else Ret (OResp (with_hdr (fixed r (rc_end ctx)) (apply_status BYPASS (p_hdr (fixed r (rc_end ctx)))))))).
        { intros c'. cbv zeta.
          assert (Hby : forall c'', SafeX (Lhvr ctx (RResp (fixed r (rc_end ctx)))) true c''
                    (Ret (OResp (with_hdr (fixed r (rc_end ctx)) (apply_status BYPASS (p_hdr (fixed r (rc_end ctx)))))))).
          { intros c''. constructor. split; [reflexivity|]. right. right. right.
            eexists _, _, BYPASS. split; [reflexivity|split; [exact E304|split; [right; reflexivity|split; reflexivity]]]. }
          destruct (can_store_response _ _ _).
          - eapply SafeX_bind; [apply store_response_safeX|].
            + intros id. eapply Src_full; [exact Hg|exact E304|reflexivity].
            + intros cd' c'' r1 (-> & Hs1 & _). constructor. split; [reflexivity|]. right. right. right.
              eexists _, r1, MISS. split; [reflexivity|split; [exact E304|split; [left; reflexivity|split; [reflexivity|exact Hs1]]]].
          - destruct (_ && _); [apply invalidate_cache_safeX|]; apply Hby. }
        destruct (rc_no_stale ctx) eqn:Ens; cbn [negb andb]; [apply Hafter|].
        destruct (is_stale_error_allowed (p_status (fixed r (rc_end ctx)))) eqn:Esie; [|apply Hafter].
        constructor. intros now _. destruct (can_stale_on_error _ _ _) eqn:Ec; [|apply Hafter].
        constructor. split; [reflexivity|]. right. right. left. exists now.
        split; [exact Ens|split; [right; eexists; split; [reflexivity|exact Esie]|split; [exact Ec|reflexivity]]].
  Qed.

  Lemma rtt_safeX {A} (L : bool -> xctx -> A -> Prop) cd c q (f : origin_reply -> Z -> Z -> prog A) :
    (forall rep a b, reply_known q a b rep -> SafeX L true (XR b) (f rep a b)) ->
    SafeX L cd c (round_trip_timed q f).
  Proof.
    intros Hf. unfold round_trip_timed. constructor. intros a _. apply SX_Origin.
    intros rep. cbn [after_callx]. constructor. intros b Hb. cbn [now_okx] in Hb. destruct rep as [|r].
    - apply Hf. intros r' E. discriminate.
    - apply Hf. intros r' E. injection E as <-. exists r. split; [reflexivity|]. apply Hb. reflexivity.
  Qed.

  (* ---------- leaves of a RoundTrip for q that starts at clock reading t0 ---------- *)
  (* without an origin call: the synthesised 504, or the served form of an entry with a known source *)
  Definition unvalidated (q : request) (t0 : Z) (o : outcome) : Prop :=
    o = OResp response_504 \/
    exists e, Src e /\ (decide_hit q e t0 = DServe \/ decide_hit q e t0 = DServeSWR) /\ o = served_outcome q e t0.
  (* after an origin call: the call's failure, its reply marked MISS or BYPASS, or — on a hit whose decision was to
     validate — what HandleValidationResponse makes of the reply to the conditional request *)
  Definition after_call (q : request) (t0 : Z) (o : outcome) : Prop :=
    o = OErr \/
    (exists r1 st, (st = MISS \/ st = BYPASS) /\ o = OResp (with_hdr r1 (apply_status st (p_hdr r1)))) \/
    (exists e must a b rep, Src e /\ decide_hit q e t0 = DRevalidate must /\
       reply_known (with_conditional_headers q (e_hdr e)) a b rep /\
       hvr_leaf e (calculate_freshness e (parse_cc (q_hdr q)) (parse_cc (e_hdr e)) t0) (parse_cc (q_hdr q)) must rep o).

  Definition Lrt (q : request) (t0 : Z) : bool -> xctx -> outcome -> Prop := fun cd _ o =>
    if cd then after_call q t0 o else unvalidated q t0 o.

  Lemma SafeX_weaken {A} (L M : bool -> xctx -> A -> Prop) cd c (p : prog A) :
    (forall cd' c' a, L cd' c' a -> M cd' c' a) -> SafeX L cd c p -> SafeX M cd c p.
  Proof. intros H Hp. induction Hp; constructor; auto. Qed.

  Lemma miss_safeX c q t0 u refs i : is_get (q_method q) = true -> SafeX (Lrt q t0) false c (handle_cache_miss q u refs i).
  Proof.
    intros Hget. unfold handle_cache_miss. destruct (req_only_if_cached _); [constructor; left; reflexivity|].
    apply rtt_safeX. intros [|r'] a b Hrep; [constructor; left; reflexivity|]. cbv zeta.
    destruct (Hrep r' eq_refl) as (r & -> & Hg).
    assert (Hpass : forall c', SafeX (Lrt q t0) true c' (Ret (OResp (with_hdr (fixed r b) (apply_status MISS (p_hdr (fixed r b))))))).
    { intros c'. constructor. right. left. eexists _, MISS. split; [left; reflexivity|reflexivity]. }
    destruct (negb (p_status (fixed r b) =? 304)) eqn:E304; cbn [andb]; [|apply Hpass].
    destruct (can_store_response _ _ _); [|apply Hpass].
    eapply SafeX_bind; [apply store_response_safeX|].
    - intros id. eapply Src_full; [exact Hg| |reflexivity].
      apply Bool.negb_true_iff, Z.eqb_neq in E304. exact E304.
    - intros cd' c' r1 (-> & _). constructor. right. left. eexists r1, MISS. split; [left; reflexivity|reflexivity].
  Qed.

  Lemma bg_safeX c q stored u f cc : is_get (q_method q) = true ->
    SafeX (fun _ _ (_ : unit) => True) false c (background_revalidate q stored u f cc).
  Proof.
    intros Hget. unfold background_revalidate. apply rtt_safeX.
    intros [|r'] a b Hrep; [constructor; exact I|]. constructor. intros own Hown. destruct own as [own|]; [|constructor; exact I].
    destruct (_ && _); [constructor; exact I|]. unfold get_refs_clean. constructor. intros ans.
    eapply SafeX_bind; [|intros; constructor; exact I].
    apply hvr_safeX; cbn [rc_stored rc_start rc_end]; [exact Hget|apply Hown; reflexivity|exact Hrep].
  Qed.

  Lemma hit_safeX q t0 stored u refs i : is_get (q_method q) = true -> Src stored ->
    SafeX (Lrt q t0) false (XR t0) (handle_cache_hit q stored u refs i).
  Proof.
    intros Hget Hst. unfold handle_cache_hit. constructor. intros now Hnow. cbn [now_okx] in Hnow. subst now. cbv zeta.
    destruct (decide_hit q stored t0) eqn:Ed.
    - constructor. right. exists stored. split; [exact Hst|split; [left; exact Ed|]].
      unfold served_outcome. rewrite Ed. reflexivity.
    - unfold handle_stale_while_revalidate. apply SX_Spawn; [apply bg_safeX; exact Hget|].
      constructor. right. exists stored. split; [exact Hst|split; [right; exact Ed|]].
      unfold served_outcome. rewrite Ed. reflexivity.
    - constructor. left. reflexivity.
    - apply rtt_safeX. intros rep a b Hrep. eapply SafeX_weaken; [|apply hvr_safeX; cbn [rc_stored rc_start rc_end]; [exact Hget|exact Hst|exact Hrep]].
      intros cd' c' o (-> & Hl). cbn [rc_stored rc_fresh rc_cc_req rc_no_stale] in Hl.
      right. right. exists stored, must, a, b, rep. split; [exact Hst|split; [exact Ed|split; [exact Hrep|exact Hl]]].
  Qed.
End SafeX.

Theorem round_trip_safeX GX q t0 : SafeX GX (Lrt GX q t0) false (XR t0) (round_trip q).
Proof.
  unfold round_trip. destruct (is_request_method_understood q) eqn:Hund; cbn [negb].
  - assert (Hget : is_get (q_method q) = true).
    { unfold is_request_method_understood in Hund. apply Bool.andb_true_iff in Hund as [H _]. exact H. }
    unfold get_refs_clean. constructor. intros ans.
    destruct ans as [l|]; cbn [option_map]; [|apply miss_safeX; exact Hget].
    destruct (drop_nil_refs l) as [|x l']; [apply miss_safeX; exact Hget|].
    destruct (has_nil_ref (x :: l')); [constructor|].
    destruct (vary_headers_match _ _) as [[sorted oi]|]; [|constructor].
    destruct oi as [i|]; [|apply miss_safeX; exact Hget].
    destruct (nth_error sorted (Z.to_nat i)) as [r|]; [|constructor].
    constructor. intros e He. destruct e as [stored|]; [apply hit_safeX; [exact Hget|apply He; reflexivity]|apply miss_safeX; exact Hget].
  - unfold handle_unrecognized_method. destruct (req_only_if_cached _); [constructor; left; reflexivity|]. apply SX_Origin. intros [|r]; [constructor; left; reflexivity|].
    assert (Hby : forall c, SafeX GX (Lrt GX q t0) true c (Ret (OResp (with_hdr r (apply_status BYPASS (p_hdr r)))))).
    { intros c. constructor. right. left. eexists r, BYPASS. split; [right; reflexivity|reflexivity]. }
    destruct (_ && _); [|apply Hby].
    unfold get_refs_clean. constructor. intros ans. apply invalidate_cache_safeX. apply Hby.
Qed.

(* ---------- the semantic side ---------- *)
Definition GXl (L : list event) (q : request) (a b : Z) (r : response) : Prop :=
  exists idx, In (EvCall idx q a b (RResp r)) L.
Definition ctx_okx (L : list event) (c : xctx) (w : world) : Prop :=
  match c with
  | XU => True
  | XR t => w_clock w = t
  | XA a q rep => forall r, rep = RResp r -> GXl L q a (w_clock w) r
  end.
Definition InvX (L : list event) (s : store) : Prop :=
  forall k e, get_entry s k = Some e -> Src (GXl L) e.
Definition pend_okx (L : list event) (p : prog unit) : Prop := SafeX (GXl L) (fun _ _ _ => True) false XU p.
Definition has_call (y : list event) : Prop := exists i q a b rep, In (EvCall i q a b rep) y.

Lemma do_origin_reply limit q w : exists idx,
  w_log (snd (do_origin limit q w)) =
    EvCall idx q (w_clock w) (w_clock (snd (do_origin limit q w))) (fst (do_origin limit q w)) :: w_log w /\
  w_store (snd (do_origin limit q w)) = w_store w /\ w_pending (snd (do_origin limit q w)) = w_pending w.
Proof.
  unfold do_origin. destruct (w_script w) as [|[[d r0] rc] t]; destruct limit as [T|]; cbn;
    try destruct (T <? _); cbn; eexists; repeat split.
Qed.

Lemma InvX_set_entry L s k e : InvX L s -> Src (GXl L) e -> InvX L (aset k (SEntry e) s).
Proof.
  intros I He k' e' H. destruct (beq k' k) eqn:E.
  - apply beq_eq in E. subst k'. rewrite get_entry_aset_same in H. injection H as <-. exact He.
  - rewrite get_entry_aset_other in H by exact E. apply (I k' e' H).
Qed.
Lemma InvX_set_refs L s k l : InvX L s -> InvX L (aset k (SRefs l) s).
Proof.
  intros I k' e' H. destruct (beq k' k) eqn:E.
  - apply beq_eq in E. subst k'. rewrite get_entry_aset_refs in H. discriminate.
  - rewrite get_entry_aset_other in H by exact E. apply (I k' e' H).
Qed.
Lemma InvX_del L s k : InvX L s -> InvX L (aremove k s).
Proof. intros I k' e' H. rewrite get_entry_aremove in H. destruct (beq k' k); [discriminate|]. apply (I k' e' H). Qed.

Lemma has_call_snoc y ev : has_call y -> has_call (y ++ [ev]).
Proof. intros (i & q & a & b & rep & H). exists i, q, a, b, rep. apply in_or_app. left. exact H. Qed.

(* what a finished run says about its result: the leaf predicate holds for a flag and a context that fit the final
   world; the flag is unset exactly when no origin call was logged since the start (given that it was unset then) *)
Definition leaf_post {A} (Lf : list event) (L : bool -> xctx -> A -> Prop) (cd : bool) (w w' : world) (a : A) : Prop :=
  exists cd' c', L cd' c' a /\ ctx_okx Lf c' w' /\
    (cd' = false -> cd = false /\ exists y, w_log w' = y ++ w_log w /\ ~ has_call y) /\
    (cd' = true -> cd = true \/ exists y, w_log w' = y ++ w_log w /\ has_call y).

Lemma no_call_snoc y ev : ~ has_call y -> (forall i q a b rep, ev <> EvCall i q a b rep) -> ~ has_call (y ++ [ev]).
Proof.
  intros Hy Hev (i & q & a & b & rep & Hin). apply in_app_or in Hin as [Hin|[Hin|[]]].
  - apply Hy. exists i, q, a, b, rep. exact Hin.
  - apply (Hev i q a b rep). exact Hin.
Qed.

(* one more event that is not a call, in front of the run *)
Lemma leaf_post_step {A} Lf (L : bool -> xctx -> A -> Prop) cd (w wm w' : world) ev (a : A) :
  w_log wm = ev :: w_log w -> (forall i q a0 b rep, ev <> EvCall i q a0 b rep) ->
  leaf_post Lf L cd wm w' a -> leaf_post Lf L cd w w' a.
Proof.
  intros Hm Hev (cd' & c' & Hl & Hc' & Hf & Ht). exists cd', c'. split; [exact Hl|split; [exact Hc'|split]].
  - intros E. destruct (Hf E) as (Hd & y & Hy & Hn). split; [exact Hd|].
    exists (y ++ [ev]). split; [rewrite Hy, Hm, <- app_assoc; reflexivity|apply no_call_snoc; assumption].
  - intros E. destruct (Ht E) as [Hd|(y & Hy & Hcall)]; [left; exact Hd|right].
    exists (y ++ [ev]). split; [rewrite Hy, Hm, <- app_assoc; reflexivity|apply has_call_snoc, Hcall].
Qed.

Lemma run_safeX {A} (p : prog A) : forall (L : bool -> xctx -> A -> Prop) cd c Lf limit w res w',
  SafeX (GXl Lf) L cd c p -> ctx_okx Lf c w -> InvX Lf (w_store w) -> Forall (pend_okx Lf) (w_pending w) ->
  run limit p w = (res, w') -> incl (w_log w') Lf ->
  InvX Lf (w_store w') /\ Forall (pend_okx Lf) (w_pending w') /\
  (forall a, res = Done a -> leaf_post Lf L cd w w' a).
Proof.
  induction p as [A0 a|A0 k f IH|A0 k f IH|A0 k e f IH|A0 k l f IH|A0 k f IH|A0 r f IH|A0 f IH|A0 b IHb f IHf|A0|A0];
    intros L cd c Lf limit w res w' HS Hc HI HP H Hincl; cbn [run] in H; apply SafeX_inversion in HS; cbn [SafeX_inv] in HS.
  - injection H as <- <-. split; [exact HI|split; [exact HP|]]. intros a' E. injection E as <-.
    exists cd, c. split; [exact HS|split; [exact Hc|split]].
    + intros ->. split; [reflexivity|]. exists []. split; [reflexivity|intros (i & q & a0 & b & rep & [])].
    + intros ->. left. reflexivity.
  - (* GetRefs *)
    pose proof H as H0.
    eapply IH in H0 as (HI' & HP' & Hleaf); [|apply HS|destruct c; exact Hc|exact HI|exact HP|exact Hincl].
    split; [exact HI'|split; [exact HP'|]]. intros a E.
    eapply leaf_post_step; [| |apply Hleaf, E]; [reflexivity|intros; discriminate].
  - (* GetEntry *)
    pose proof H as H0.
    eapply IH in H0 as (HI' & HP' & Hleaf); [|apply HS; intros e E; exact (HI k e E)|destruct c; exact Hc|exact HI|exact HP|exact Hincl].
    split; [exact HI'|split; [exact HP'|]]. intros a E.
    eapply leaf_post_step; [| |apply Hleaf, E]; [reflexivity|intros; discriminate].
  - (* SetEntry *)
    destruct HS as [He HS]. pose proof H as H0.
    eapply IH in H0 as (HI' & HP' & Hleaf); [|exact HS|destruct c; exact Hc|cbn; apply InvX_set_entry; assumption|exact HP|exact Hincl].
    split; [exact HI'|split; [exact HP'|]]. intros a E.
    eapply leaf_post_step; [| |apply Hleaf, E]; [reflexivity|intros; discriminate].
  - (* SetRefs *)
    pose proof H as H0.
    eapply IH in H0 as (HI' & HP' & Hleaf); [|exact HS|destruct c; exact Hc|cbn; apply InvX_set_refs; assumption|exact HP|exact Hincl].
    split; [exact HI'|split; [exact HP'|]]. intros a E.
    eapply leaf_post_step; [| |apply Hleaf, E]; [reflexivity|intros; discriminate].
  - (* Del *)
    pose proof H as H0.
    eapply IH in H0 as (HI' & HP' & Hleaf); [|exact HS|destruct c; exact Hc|cbn; apply InvX_del; assumption|exact HP|exact Hincl].
    split; [exact HI'|split; [exact HP'|]]. intros a E.
    eapply leaf_post_step; [| |apply Hleaf, E]; [reflexivity|intros; discriminate].
  - (* Origin *)
    destruct (do_origin_reply limit r w) as (idx & Hl & Hst & Hpe). destruct (do_origin limit r w) as [rep w1] eqn:Ed. cbn [fst snd] in *.
    destruct (run_log_mono _ _ _ _ _ H) as [[y Hy] _].
    pose proof H as H0.
    eapply IH in H0 as (HI' & HP' & Hleaf); [|apply HS| |rewrite Hst; exact HI|rewrite Hpe; exact HP|exact Hincl].
    2:{ destruct c as [|a|a q0 rep0]; cbn [after_callx ctx_okx]; try exact I.
        cbn [ctx_okx] in Hc. intros r0 E. exists idx. apply Hincl. rewrite Hy, Hl. apply in_or_app. right. left.
        rewrite Hc, E. reflexivity. }
    split; [exact HI'|split; [exact HP'|]]. intros a E. destruct (Hleaf a E) as (cd' & c' & Hl' & Hc' & Hf & Ht).
    exists cd', c'. split; [exact Hl'|split; [exact Hc'|split]].
    + intros E'. destruct (Hf E') as [Hd _]. discriminate.
    + intros _. right. exists (y ++ [EvCall idx r (w_clock w) (w_clock w1) rep]).
      split; [rewrite Hy, Hl, <- app_assoc; reflexivity|].
      exists idx, r, (w_clock w), (w_clock w1), rep. apply in_or_app. right. left. reflexivity.
  - (* Now *)
    pose proof H as H0.
    eapply IH in H0 as (HI' & HP' & Hleaf); [|apply HS| |exact HI|exact HP|exact Hincl].
    3:{ cbn [ctx_okx]. reflexivity. }
    2:{ destruct c as [|t0|a q0 rep0]; cbn [now_okx ctx_okx] in *; [exact I|exact Hc|exact Hc]. }
    split; [exact HI'|split; [exact HP'|exact Hleaf]].
  - (* Spawn *)
    destruct HS as [Hb HS]. pose proof H as H0.
    eapply IHf in H0 as (HI' & HP' & Hleaf); [|exact HS|destruct c; exact Hc|exact HI| |exact Hincl].
    2:{ cbn. apply Forall_app. split; [exact HP|]. constructor; [exact Hb|constructor]. }
    split; [exact HI'|split; [exact HP'|exact Hleaf]].
  - injection H as <- <-. split; [exact HI|split; [exact HP|]]. intros a E. discriminate.
  - injection H as <- <-. split; [exact HI|split; [exact HP|]]. intros a E. discriminate.
Qed.

Lemma run_pending_safeX Lf T ps : forall w ok w', Forall (pend_okx Lf) ps -> InvX Lf (w_store w) ->
  Forall (pend_okx Lf) (w_pending w) -> run_pending T ps w = (ok, w') -> incl (w_log w') Lf -> InvX Lf (w_store w').
Proof.
  induction ps as [|p r IH]; intros w ok w' Hps HI HP H Hincl; cbn [run_pending] in H.
  - injection H as _ <-. exact HI.
  - inversion Hps as [|? ? Hp Hr]; subst. destruct (run (Some T) p w) as [res w1] eqn:E.
    assert (Hincl1 : incl (w_log w1) Lf).
    { destruct res.
      - destruct (run_pending_log_mono _ _ _ _ _ H) as [y Hy]. intros x Hx. apply Hincl. rewrite Hy. apply in_or_app. right. exact Hx.
      - injection H as _ <-. exact Hincl.
      - injection H as _ <-. exact Hincl. }
    destruct (run_safeX p _ false XU Lf (Some T) w res w1 Hp I HI HP E Hincl1) as (HI1 & HP1 & _).
    destruct res.
    + eapply IH; [exact Hr|exact HI1|exact HP1|exact H|exact Hincl].
    + injection H as _ <-. exact HI1.
    + injection H as _ <-. exact HI1.
Qed.

(* what an exchange for q that starts at clock reading t0 may return: without an origin call in the exchange,
   [unvalidated]; with one, [after_call] *)
Definition unvalidated_answer (Lf : list event) := unvalidated (GXl Lf).
Definition answer_after_call (Lf : list event) := after_call (GXl Lf).

Theorem exchange_safeX Lf cfg q w obs w' :
  InvX Lf (w_store w) -> exchange cfg q w = (obs, w') -> incl (x_events obs ++ x_bg_events obs) Lf ->
  InvX Lf (w_store w') /\
  (forall o, x_result obs = Done o ->
     (~ has_call (x_events obs) -> unvalidated_answer Lf q (x_t0 obs) o) /\
     (has_call (x_events obs) -> answer_after_call Lf q (x_t0 obs) o)).
Proof.
  intros HI H Hincl. unfold exchange in H.
  destruct (run None (round_trip q) (clear_log_pending w)) as [res w1] eqn:E1.
  destruct (run_pending (effective_swr_timeout (cfg_swr_timeout cfg)) (w_pending w1) (clear_log_pending w1)) as [ok w2] eqn:E2.
  injection H as <- <-. cbn [x_events x_bg_events x_result x_t0] in *.
  assert (Hfg : incl (w_log w1) Lf) by (apply incl_rev_l; intros x Hx; apply Hincl; apply in_or_app; left; exact Hx).
  assert (Hbg : incl (w_log w2) Lf) by (apply incl_rev_l; intros x Hx; apply Hincl; apply in_or_app; right; exact Hx).
  destruct (run_safeX (round_trip q) _ false (XR (w_clock w)) Lf None (clear_log_pending w) res w1
              (round_trip_safeX (GXl Lf) q (w_clock w)) eq_refl HI (Forall_nil _) E1 Hfg) as (HI1 & HP1 & Hleaf).
  split.
  - exact (run_pending_safeX Lf _ _ (clear_log_pending w1) ok w2 HP1 HI1 (Forall_nil _) E2 Hbg).
  - intros o Ho. destruct (Hleaf o Ho) as (cd' & c' & Hl & Hc' & Hf & Ht).
    assert (Hrev : forall y, w_log w1 = y ++ [] -> (has_call (rev (w_log w1)) <-> has_call y)).
    { intros y Hy. rewrite app_nil_r in Hy. rewrite Hy. split; intros (i & q0 & a & b & rep & Hin); exists i, q0, a, b, rep;
        [apply in_rev; exact Hin|apply in_rev in Hin; exact Hin]. }
    destruct cd'; unfold Lrt in Hl.
    + split; [|intros _; exact Hl].
      intros Hnc. exfalso. destruct (Ht eq_refl) as [Hd|(y & Hy & Hcall)]; [discriminate|].
      apply Hnc. apply (Hrev y Hy). exact Hcall.
    + split; [intros _; exact Hl|].
      intros Hc. exfalso. destruct (Hf eq_refl) as (_ & y & Hy & Hn). apply Hn. apply (Hrev y Hy). exact Hc.
Qed.

(* every exchange of a sequential history, from any store satisfying the invariant *)
Theorem history_safeX Lf cfg h : forall w,
  InvX Lf (w_store w) ->
  incl (flat_map (fun o => x_events o ++ x_bg_events o) (run_history cfg h w)) Lf ->
  InvX Lf (w_store (final_world cfg h w)) /\
  forall k gq obs o, nth_error h k = Some gq -> nth_error (run_history cfg h w) k = Some obs ->
    x_result obs = Done o ->
    (~ has_call (x_events obs) -> unvalidated_answer Lf (snd gq) (x_t0 obs) o) /\
    (has_call (x_events obs) -> answer_after_call Lf (snd gq) (x_t0 obs) o).
Proof.
  induction h as [|[gap q] h IH]; intros w HI Hincl; [split; [exact HI|intros k gq obs o Hk; destruct k; discriminate]|].
  cbn [run_history final_world] in *.
  destruct (exchange cfg q {| w_store := w_store w; w_clock := w_clock w + gap; w_script := w_script w;
                              w_calls := w_calls w; w_log := []; w_pending := [] |}) as [obs w2] eqn:E.
  cbn [flat_map snd] in *.
  destruct (exchange_safeX Lf cfg q {| w_store := w_store w; w_clock := w_clock w + gap; w_script := w_script w;
                              w_calls := w_calls w; w_log := []; w_pending := [] |} obs w2 HI E) as [HI2 Hres].
  { intros x Hx. apply Hincl. apply in_or_app. left. exact Hx. }
  destruct (IH w2 HI2) as [HIf Hrest].
  { intros x Hx. apply Hincl. apply in_or_app. right. exact Hx. }
  split; [exact HIf|].
  intros k gq obs' o Hk Ho Hr. destruct k as [|k].
  - cbn in Hk, Ho. injection Hk as <-. injection Ho as <-. cbn [snd]. apply Hres; assumption.
  - cbn in Hk, Ho. eapply Hrest; eassumption.
Qed.

(* ---------- what [Src] says about the fields of an entry ---------- *)
Lemma Src_status GX e : Src GX e -> e_status e <> 304.
Proof.
  induction 1 as [e q a b r Hg Hn He|e e0 q a b r _ IH Hg H3 He]; rewrite He; cbn; assumption.
Qed.

(* the instants of an entry are the start and the end of the origin call whose reply it was stored or last freshened from *)
Lemma Src_instants GX e : Src GX e -> exists q r, GX q (e_req_at e) (e_recv_at e) r.
Proof. destruct 1 as [e q a b r Hg Hn He|e e0 q a b r _ Hg H3 He]; exists q, r; rewrite He; cbn; exact Hg. Qed.

(* status and body of an entry are those of a full (non-304) reply of an origin call *)
Lemma Src_body GX e : Src GX e -> exists q a b r, GX q a b r /\ p_status r <> 304 /\ e_status e = p_status r /\ e_body e = p_body r.
Proof.
  induction 1 as [e q a b r Hg Hn He|e e0 q a b r _ (q0 & a0 & b0 & r0 & Hg0 & Hn0 & Hs0 & Hb0) Hg H3 He].
  - exists q, a, b, r. rewrite He. cbn. auto.
  - exists q0, a0, b0, r0. rewrite He. cbn. auto.
Qed.

(* the header block of an entry: the reply's own, Date repaired, hop-by-hop fields removed; after a 304, the stored
   block overwritten with the 304's fields (updateStoredHeaders), hop-by-hop fields removed *)
Lemma Src_header GX e : Src GX e ->
  (exists q a b r, GX q a b r /\ p_status r <> 304 /\
     e_hdr e = remove_hop_by_hop (fix_date_header (p_hdr r) b)) \/
  (exists e0 q a b r, Src GX e0 /\ GX q a b r /\ p_status r = 304 /\
     e_hdr e = remove_hop_by_hop (update_stored_headers (e_hdr e0) (fix_date_header (p_hdr r) b))).
Proof.
  destruct 1 as [e q a b r Hg Hn He|e e0 q a b r H0 Hg H3 He].
  - left. exists q, a, b, r. rewrite He. cbn. auto.
  - right. exists e0, q, a, b, r. rewrite He. cbn. auto.
Qed.

(* a boolean reading of [has_call], for concrete histories *)
Definition has_callb (y : list event) : bool :=
  existsb (fun ev => match ev with EvCall _ _ _ _ _ => true | _ => false end) y.
Lemma has_callb_spec y : has_call y <-> has_callb y = true.
Proof.
  unfold has_call, has_callb. rewrite existsb_exists. split.
  - intros (i & q & a & b & rep & H). eexists. split; [exact H|reflexivity].
  - intros (ev & H & E). destruct ev; try discriminate. eexists _, _, _, _, _. exact H.
Qed.

(* ---------- programs without an origin call on any path (only-if-cached) ---------- *)
Lemma run_no_origin {A} (p : prog A) : forall limit w res w', NoOrigin p -> run limit p w = (res, w') ->
  (exists y, w_log w' = y ++ w_log w /\ ~ has_call y) /\
  (exists ps, w_pending w' = w_pending w ++ ps /\ Forall NoOrigin ps).
Proof.
  assert (Hsnoc : forall y ev, ~ has_call y -> (forall i q a b rep, ev <> EvCall i q a b rep) -> ~ has_call (y ++ [ev])).
  { intros y ev Hy Hev (i & q & a & b & rep & Hin). apply in_app_or in Hin as [Hin|[Hin|[]]].
    - apply Hy. exists i, q, a, b, rep. exact Hin.
    - apply (Hev i q a b rep). exact Hin. }
  induction p as [A0 a0|A0 k f IH|A0 k f IH|A0 k e f IH|A0 k l f IH|A0 k f IH|A0 r f IH|A0 f IH|A0 b IHb f IHf|A0|A0];
    intros limit w res w' HN H; cbn [run] in H; inversion HN; subst;
    repeat match goal with X : existT _ _ _ = existT _ _ _ |- _ => apply Eqdep_dec.inj_pair2_eq_dec in X; [subst|decide equality] end.
  - injection H as _ <-. split; [exists []; split; [reflexivity|intros (i & q & a & b & rep & [])]|exists []; split; [rewrite app_nil_r; reflexivity|constructor]].
  - match goal with X : forall x, NoOrigin (f x) |- _ => destruct (IH _ limit _ res w' (X _) H) as ((y & Hy & Hn) & Hp) end.
    split; [|exact Hp]. eexists (y ++ [_]). split; [rewrite Hy, <- app_assoc; reflexivity|apply Hsnoc; [exact Hn|intros; discriminate]].
  - match goal with X : forall x, NoOrigin (f x) |- _ => destruct (IH _ limit _ res w' (X _) H) as ((y & Hy & Hn) & Hp) end.
    split; [|exact Hp]. eexists (y ++ [_]). split; [rewrite Hy, <- app_assoc; reflexivity|apply Hsnoc; [exact Hn|intros; discriminate]].
  - match goal with X : NoOrigin f |- _ => destruct (IH limit _ res w' X H) as ((y & Hy & Hn) & Hp) end.
    split; [|exact Hp]. eexists (y ++ [_]). split; [rewrite Hy, <- app_assoc; reflexivity|apply Hsnoc; [exact Hn|intros; discriminate]].
  - match goal with X : NoOrigin f |- _ => destruct (IH limit _ res w' X H) as ((y & Hy & Hn) & Hp) end.
    split; [|exact Hp]. eexists (y ++ [_]). split; [rewrite Hy, <- app_assoc; reflexivity|apply Hsnoc; [exact Hn|intros; discriminate]].
  - match goal with X : NoOrigin f |- _ => destruct (IH limit _ res w' X H) as ((y & Hy & Hn) & Hp) end.
    split; [|exact Hp]. eexists (y ++ [_]). split; [rewrite Hy, <- app_assoc; reflexivity|apply Hsnoc; [exact Hn|intros; discriminate]].
  - match goal with X : forall t, NoOrigin (f t) |- _ => exact (IH _ limit _ res w' (X _) H) end.
  - match goal with X : NoOrigin f, Y : NoOrigin b |- _ => destruct (IHf limit _ res w' X H) as (Hl & (ps & Hps & Hf)); cbn [w_pending w_log] in *;
      split; [exact Hl|exists (b :: ps); split; [rewrite Hps, <- app_assoc; reflexivity|constructor; assumption]] end.
  - injection H as _ <-. split; [exists []; split; [reflexivity|intros (i & q & a & b & rep & [])]|exists []; split; [rewrite app_nil_r; reflexivity|constructor]].
  - injection H as _ <-. split; [exists []; split; [reflexivity|intros (i & q & a & b & rep & [])]|exists []; split; [rewrite app_nil_r; reflexivity|constructor]].
Qed.

Lemma run_pending_no_origin T ps : forall w ok w', Forall NoOrigin ps -> Forall NoOrigin (w_pending w) ->
  run_pending T ps w = (ok, w') -> exists y, w_log w' = y ++ w_log w /\ ~ has_call y.
Proof.
  induction ps as [|p r IH]; intros w ok w' Hps HP H; cbn [run_pending] in H.
  - injection H as _ <-. exists []. split; [reflexivity|intros (i & q & a & b & rep & [])].
  - inversion Hps as [|? ? Hp Hr]; subst. destruct (run (Some T) p w) as [res w1] eqn:E.
    destruct (run_no_origin p _ _ _ _ Hp E) as ((y1 & Hy1 & Hn1) & (ps1 & Hps1 & Hf1)).
    destruct res.
    + destruct (IH w1 ok w' Hr) as (y2 & Hy2 & Hn2); [rewrite Hps1; apply Forall_app; split; assumption|exact H|].
      exists (y2 ++ y1). split; [rewrite Hy2, Hy1, app_assoc; reflexivity|].
      intros (i & q & a' & b & rep & Hin). apply in_app_or in Hin as [Hin|Hin]; [apply Hn2|apply Hn1]; exists i, q, a', b, rep; exact Hin.
    + injection H as _ <-. exists y1. split; assumption.
    + injection H as _ <-. exists y1. split; assumption.
Qed.

(* an exchange whose program has no origin call on any path logs none, in the foreground or in the background *)
Theorem exchange_no_origin cfg q w obs w' : NoOrigin (round_trip q) -> exchange cfg q w = (obs, w') ->
  ~ has_call (x_events obs) /\ ~ has_call (x_bg_events obs).
Proof.
  intros HN H. unfold exchange in H.
  destruct (run None (round_trip q) (clear_log_pending w)) as [res w1] eqn:E1.
  destruct (run_pending (effective_swr_timeout (cfg_swr_timeout cfg)) (w_pending w1) (clear_log_pending w1)) as [ok w2] eqn:E2.
  injection H as <- <-. cbn [x_events x_bg_events].
  destruct (run_no_origin _ _ _ _ _ HN E1) as ((y1 & Hy1 & Hn1) & (ps1 & Hps1 & Hf1)). cbn [clear_log_pending w_log w_pending app] in *.
  rewrite app_nil_r in Hy1.
  assert (Hpe : Forall NoOrigin (w_pending w1)) by (rewrite Hps1; exact Hf1).
  destruct (run_pending_no_origin _ _ (clear_log_pending w1) ok w2 Hpe (Forall_nil _) E2) as (y2 & Hy2 & Hn2).
  cbn [clear_log_pending w_log] in Hy2. rewrite app_nil_r in Hy2.
  split; intros (i & q0 & a & b & rep & Hin); apply in_rev in Hin.
  - apply Hn1. rewrite <- Hy1. exists i, q0, a, b, rep. exact Hin.
  - apply Hn2. rewrite <- Hy2. exists i, q0, a, b, rep. exact Hin.
Qed.

(* ---------- reading the answer after an origin call by its cache status ---------- *)
Lemma status_of_applied r1 st r : OResp r = OResp (with_hdr r1 (apply_status st (p_hdr r1))) ->
  hvalues status_header (p_hdr r) = [status_value st].
Proof. intros E. injection E as ->. cbn [p_hdr with_hdr]. apply status_values. Qed.

(* marked STALE after an origin call: the stale-if-error path *)
Lemma after_call_stale GX q t0 r : after_call GX q t0 (OResp r) -> hvalues status_header (p_hdr r) = [bs "STALE"] ->
  exists e now a b rep,
    Src GX e /\ decide_hit q e t0 = DRevalidate false /\
    reply_known GX (with_conditional_headers q (e_hdr e)) a b rep /\ sie_failure rep /\
    can_stale_on_error (calculate_freshness e (parse_cc (q_hdr q)) (parse_cc (e_hdr e)) t0)
      [resp_stale_if_error (parse_cc (e_hdr e)); req_stale_if_error (parse_cc (q_hdr q))] now = true /\
    OResp r = stale_if_error_outcome e (calculate_freshness e (parse_cc (q_hdr q)) (parse_cc (e_hdr e)) t0) now.
Proof.
  intros [E|[(r1 & st & Hst & E)|(e & must & a & b & rep & Hs & Hd & Hk & Hl)]] Hv; [discriminate| |].
  - rewrite (status_of_applied _ _ _ E) in Hv. destruct Hst as [-> | ->]; discriminate.
  - destruct Hl as [[_ E]|[(r' & r1 & _ & _ & E & _)|[(now & -> & Hf & Hc & E)|(r' & r1 & st & _ & _ & Hst & E & _)]]]; [discriminate| | |].
    + rewrite (status_of_applied _ _ _ E) in Hv. discriminate.
    + exists e, now, a, b, rep. repeat split; assumption.
    + rewrite (status_of_applied _ _ _ E) in Hv. destruct Hst as [-> | ->]; discriminate.
Qed.

(* marked REVALIDATED: a 304 to the conditional request built from the stored validators, in this exchange *)
Lemma after_call_revalidated GX q t0 r : after_call GX q t0 (OResp r) -> hvalues status_header (p_hdr r) = [bs "REVALIDATED"] ->
  exists e must a b r0,
    Src GX e /\ decide_hit q e t0 = DRevalidate must /\
    GX (with_conditional_headers q (e_hdr e)) a b r0 /\ p_status r0 = 304 /\
    p_status r = e_status e /\ (p_body r = e_body e \/ p_body r = -1).
Proof.
  intros [E|[(r1 & st & Hst & E)|(e & must & a & b & rep & Hs & Hd & Hk & Hl)]] Hv; [discriminate| |].
  - rewrite (status_of_applied _ _ _ E) in Hv. destruct Hst as [-> | ->]; discriminate.
  - destruct Hl as [[_ E]|[(r' & r1 & -> & H3 & E & Hst & Hb)|[(now & _ & _ & _ & E)|(r' & r1 & st & _ & _ & Hst & E & _)]]]; [discriminate| | |].
    + destruct (Hk r' eq_refl) as (r0 & -> & Hg). injection E as ->.
      exists e, must, a, b, r0. repeat split; assumption.
    + unfold stale_if_error_outcome in E. injection E as ->. cbn [p_hdr response_of entry_with_hdr e_hdr] in Hv.
      rewrite status_values in Hv. discriminate.
    + rewrite (status_of_applied _ _ _ E) in Hv. destruct Hst as [-> | ->]; discriminate.
Qed.
