(* StoreProofs.v — what reaches the store (C06). *)
From HC Require Import Transport Spec SpecMon.
From HC.Proofs Require Import Paths.
From Coq Require Import ZifyBool.
Open Scope Z_scope.

Inductive NoSetEntry {A : Type} : prog A -> Prop :=
| NS_Ret a : NoSetEntry (Ret a)
| NS_GetRefs k c : (forall x, NoSetEntry (c x)) -> NoSetEntry (GetRefs k c)
| NS_GetEntry k c : (forall x, NoSetEntry (c x)) -> NoSetEntry (GetEntry k c)
| NS_SetRefs k l c : NoSetEntry c -> NoSetEntry (SetRefs k l c)
| NS_Del k c : NoSetEntry c -> NoSetEntry (Del k c)
| NS_Origin r c : (forall x, NoSetEntry (c x)) -> NoSetEntry (Origin r c)
| NS_Now c : (forall t, NoSetEntry (c t)) -> NoSetEntry (Now c)
| NS_Spawn p c : NoSetEntry p -> NoSetEntry c -> NoSetEntry (Spawn p c)
| NS_Crash : NoSetEntry Crash
| NS_Unmodelled : NoSetEntry Unmodelled.

Lemma NoSetEntry_bind {A B} (p : prog A) (f : A -> prog B) :
  NoSetEntry p -> (forall a, NoSetEntry (f a)) -> NoSetEntry (bind p f).
Proof. intros Hp Hf; induction Hp; cbn [bind]; try (constructor; auto; fail); auto. Qed.

(* the implementation's storability test refuses everything the specification forbids to store
   (304 and a failed body are handled at the call sites, see below) *)
Lemma can_store_sound q r :
  plain_get q = true -> p_status r <> 304 -> p_body_ok r = true ->
  must_not_store q r = true ->
  can_store_response r (parse_cc (q_hdr q)) (parse_cc (p_hdr r)) = false.
Proof.
  intros Hg H304 Hb Hm. unfold must_not_store in Hm. rewrite Hg, Hb in Hm. cbn [negb] in Hm.
  unfold spec_cc, sd_has in Hm. unfold can_store_response.
  unfold resp_must_understand, resp_no_store, req_no_store, resp_public, resp_max_age_present, has_token.
  unfold hhas_line in Hm.
  set (ns1 := amem (bs "no-store") (parse_cc (p_hdr r))) in *.
  set (ns2 := amem (bs "no-store") (parse_cc (q_hdr q))) in *.
  set (mu := amem (bs "must-understand") (parse_cc (p_hdr r))) in *.
  set (ma := amem (bs "max-age") (parse_cc (p_hdr r))) in *.
  set (pub := amem (bs "public") (parse_cc (p_hdr r))) in *.
  set (ex := negb (beq (hget (bs "Expires") (p_hdr r)) [])) in *.
  unfold is_status_understood, is_heuristically_cacheable, spec_status_understood, spec_heuristic_status in *.
  set (s := p_status r) in *.
  destruct ns1, ns2, mu, ma, pub, ex; cbn [orb andb negb] in *;
  repeat match goal with |- context [if ?c then _ else _] => destruct c eqn:? end; try reflexivity; lia.
Qed.

Lemma del_all_nosetentry {A} ks done (c : list bytes -> prog A) :
  (forall d, NoSetEntry (c d)) -> NoSetEntry (del_all ks done c).
Proof.
  revert done; induction ks as [|k ks IH]; intros done H; cbn; auto.
  destruct (existsb _ _); auto. constructor; auto.
Qed.

Lemma invalidate_cache_nosetentry {A} u h refs key (c : prog A) :
  NoSetEntry c -> NoSetEntry (invalidate_cache u h refs key c).
Proof.
  intros Hc; unfold invalidate_cache. destruct (ref_ids _); [|constructor].
  apply del_all_nosetentry; intros d.
  assert (Hl : forall hs done (k : list bytes -> prog A),
             (forall d, NoSetEntry (k d)) -> NoSetEntry (invalidate_locations hs u h done k)).
  { induction hs as [|hn hs IH]; intros done k Hk; cbn [invalidate_locations]; auto.
    destruct (hget hn h); [apply IH, Hk|]. destruct (parse_url _); [|constructor].
    destruct (same_origin _ _); [|apply IH, Hk].
    unfold get_refs_clean; constructor; intros ans. destruct (ref_ids _); [|constructor].
    apply del_all_nosetentry; intros d'; apply IH, Hk. }
  apply Hl; intros d'. apply del_all_nosetentry; auto.
Qed.

(* a broken body never reaches the store *)
Lemma store_response_broken_body q r k refs a b i :
  p_body_ok r = false -> NoSetEntry (store_response q r k refs a b i).
Proof.
  intros Hb; unfold store_response. destruct (normalize_vary _ _); [|constructor].
  cbn [p_body_ok with_hdr]. rewrite Hb. repeat constructor.
Qed.

(* cache miss: nothing of a must-not-store reply is written *)
Theorem miss_no_write q k refs i r a b :
  plain_get q = true ->
  must_not_store q r = true ->
  NoSetEntry
    (let cc_resp := parse_cc (p_hdr r) in
     if negb (p_status r =? 304) && can_store_response r (parse_cc (q_hdr q)) cc_resp
     then r1 <- store_response q r k refs a b i;; Ret (OResp (with_hdr r1 (apply_status MISS (p_hdr r1))))
     else Ret (OResp (with_hdr r (apply_status MISS (p_hdr r))))).
Proof.
  intros Hg Hm. cbv zeta.
  destruct (Z.eqb_spec (p_status r) 304) as [E|E]; cbn [negb andb]; [constructor|].
  destruct (p_body_ok r) eqn:Hb.
  - rewrite (can_store_sound q r Hg E Hb Hm). constructor.
  - destruct (can_store_response _ _ _); [|constructor].
    apply NoSetEntry_bind; [apply store_response_broken_body; exact Hb|intros; constructor].
Qed.

(* validation: a must-not-store full reply is not written either *)
Theorem validation_no_write ctx q r :
  plain_get q = true -> rc_cc_req ctx = parse_cc (q_hdr q) ->
  (p_status r =? 304) = false ->
  must_not_store q r = true ->
  NoSetEntry (handle_validation_response ctx q (RResp r)).
Proof.
  intros Hg Hcc H304 Hm. unfold handle_validation_response. rewrite H304, Bool.andb_false_r.
  assert (E : p_status r <> 304) by lia.
  assert (Hafter : NoSetEntry
    (let cc_resp := parse_cc (p_hdr r) in
     if can_store_response r (rc_cc_req ctx) cc_resp
     then r1 <- store_response q r (rc_url_key ctx) (rc_refs ctx) (rc_start ctx) (rc_end ctx) (rc_ref_index ctx);;
          Ret (OResp (with_hdr r1 (apply_status MISS (p_hdr r1))))
     else if is_unsafe_method (q_method q) && is_non_error_status (p_status r)
          then invalidate_cache (q_url q) (p_hdr r) (rc_refs ctx) (rc_url_key ctx)
                 (Ret (OResp (with_hdr r (apply_status BYPASS (p_hdr r)))))
          else Ret (OResp (with_hdr r (apply_status BYPASS (p_hdr r)))))).
  { cbv zeta. rewrite Hcc. destruct (p_body_ok r) eqn:Hb.
    - rewrite (can_store_sound q r Hg E Hb Hm).
      destruct (_ && _); [apply invalidate_cache_nosetentry|]; constructor.
    - destruct (can_store_response _ _ _).
      + apply NoSetEntry_bind; [apply store_response_broken_body; exact Hb|intros; constructor].
      + destruct (_ && _); [apply invalidate_cache_nosetentry|]; constructor. }
  match goal with |- NoSetEntry (if ?c then _ else _) => destruct c end; [|exact Hafter].
  constructor; intros now; destruct (can_stale_on_error _ _ _); [constructor|exact Hafter].
Qed.

(* requests that are not plain GETs never write an entry *)
Theorem unrecognized_no_write q k : NoSetEntry (handle_unrecognized_method q k).
Proof.
  unfold handle_unrecognized_method; destruct (req_only_if_cached _); [constructor|]; constructor; intros [|r]; [constructor|].
  destruct (_ && _); [|constructor].
  unfold get_refs_clean; constructor; intros ans. apply invalidate_cache_nosetentry; constructor.
Qed.
