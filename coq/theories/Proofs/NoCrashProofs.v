(* NoCrashProofs.v — the transport's effect tree has no panic node on any path (C10). *)
From HC Require Import Transport.
From HC.Proofs Require Import Paths.
Open Scope Z_scope.

Definition no_nil (l : list (option ref)) : Prop := has_nil_ref l = false.

Lemma no_nil_drop l : no_nil (drop_nil_refs l).
Proof. unfold no_nil; induction l as [|[r|] l IH]; cbn; auto. Qed.

Lemma no_nil_map_some l : no_nil (map Some l).
Proof. unfold no_nil; induction l as [|r l IH]; cbn; auto. Qed.

Lemma ref_ids_no_nil l : no_nil l -> exists ids, ref_ids l = Some ids.
Proof.
  unfold no_nil; induction l as [|[r|] l IH]; cbn; intros H.
  - eauto.
  - destruct (IH H) as [ids E]; rewrite E; cbn; eauto.
  - discriminate.
Qed.

Lemma no_nil_app a b : no_nil a -> no_nil b -> no_nil (a ++ b).
Proof. unfold no_nil, has_nil_ref; intros Ha Hb; rewrite existsb_app, Ha, Hb; reflexivity. Qed.

Lemma no_nil_replace n x l : no_nil l -> no_nil (replace_nth n (Some x) l).
Proof.
  unfold no_nil; revert n; induction l as [|[r|] l IH]; intros [|n] H; cbn in *; auto; discriminate.
Qed.

Lemma del_all_nocrash {A} ks done (c : list bytes -> prog A) :
  (forall d, NoCrash (c d)) -> NoCrash (del_all ks done c).
Proof.
  revert done; induction ks as [|k ks IH]; intros done H; cbn; auto.
  destruct (existsb _ _); auto. constructor; auto.
Qed.

Lemma invalidate_locations_nocrash {A} hs u h done (c : list bytes -> prog A) :
  (forall d, NoCrash (c d)) -> NoCrash (invalidate_locations hs u h done c).
Proof.
  revert done; induction hs as [|hn hs IH]; intros done H; cbn [invalidate_locations]; auto.
  destruct (hget hn h) eqn:E; [apply IH, H|].
  destruct (parse_url _) as [pr|]; [|constructor].
  destruct (same_origin _ _); [|apply IH, H].
  unfold get_refs_clean; constructor; intros ans.
  assert (Hn : no_nil (match option_map drop_nil_refs ans with Some l => l | None => [] end)).
  { destruct ans; cbn; [apply no_nil_drop|reflexivity]. }
  destruct (ref_ids_no_nil _ Hn) as [ids E2]; rewrite E2.
  apply del_all_nocrash; intros d; apply IH, H.
Qed.

Lemma invalidate_cache_nocrash {A} u h refs key (c : prog A) :
  no_nil refs -> NoCrash c -> NoCrash (invalidate_cache u h refs key c).
Proof.
  intros Hn Hc; unfold invalidate_cache.
  destruct (ref_ids_no_nil _ Hn) as [ids E]; rewrite E.
  apply del_all_nocrash; intros d.
  apply invalidate_locations_nocrash; intros d'.
  apply del_all_nocrash; auto.
Qed.

Lemma store_response_nocrash q r k refs a b i :
  NoCrash (store_response q r k refs a b i).
Proof.
  unfold store_response. destruct (normalize_vary _ _); [|constructor].
  destruct (p_body_ok _); repeat constructor.
Qed.

Lemma handle_validation_nocrash ctx q rep :
  no_nil (rc_refs ctx) -> NoCrash (handle_validation_response ctx q rep).
Proof.
  intros Hn; unfold handle_validation_response.
  destruct rep as [|r].
  - (* transport error: the 304 test is false *)
    cbn [andb].
    match goal with |- NoCrash (if ?c then _ else _) => destruct c end.
    + constructor; intros now; destruct (can_stale_on_error _ _ _); constructor.
    + constructor.
  - destruct (is_get (q_method q) && (p_status r =? 304)).
    + destruct (req_no_store _ || resp_no_store _); [constructor|].
      apply NoCrash_bind; [apply store_response_nocrash|intros; constructor].
    + assert (Hafter : NoCrash
        (let cc_resp := parse_cc (p_hdr r) in
         if can_store_response r (rc_cc_req ctx) cc_resp
         then r1 <- store_response q r (rc_url_key ctx) (rc_refs ctx) (rc_start ctx) (rc_end ctx) (rc_ref_index ctx);;
              Ret (OResp (with_hdr r1 (apply_status MISS (p_hdr r1))))
         else if is_unsafe_method (q_method q) && is_non_error_status (p_status r)
              then invalidate_cache (q_url q) (p_hdr r) (rc_refs ctx) (rc_url_key ctx)
                     (Ret (OResp (with_hdr r (apply_status BYPASS (p_hdr r)))))
              else Ret (OResp (with_hdr r (apply_status BYPASS (p_hdr r)))))).
      { cbv zeta. destruct (can_store_response _ _ _).
        - apply NoCrash_bind; [apply store_response_nocrash|intros; constructor].
        - destruct (_ && _); [apply invalidate_cache_nocrash; [exact Hn|constructor]|constructor]. }
      destruct (negb (rc_no_stale ctx) && (is_stale_error_allowed (p_status r) && is_get (q_method q))).
      * constructor; intros now; destruct (can_stale_on_error _ _ _); [constructor|exact Hafter].
      * exact Hafter.
Qed.

Lemma round_trip_timed_nocrash {A} q (c : origin_reply -> Z -> Z -> prog A) :
  (forall rep a b, NoCrash (c rep a b)) -> NoCrash (round_trip_timed q c).
Proof.
  intros H; unfold round_trip_timed; constructor; intros a; constructor; intros rep;
  constructor; intros b; destruct rep; apply H.
Qed.

Lemma handle_cache_miss_nocrash q k refs i : NoCrash (handle_cache_miss q k refs i).
Proof.
  unfold handle_cache_miss. destruct (req_only_if_cached _); [constructor|].
  apply round_trip_timed_nocrash; intros [|r] a b; [constructor|].
  cbv zeta. destruct (_ && _); [|constructor].
  apply NoCrash_bind; [apply store_response_nocrash|intros; constructor].
Qed.

Lemma background_revalidate_nocrash q stored k f cc : NoCrash (background_revalidate q stored k f cc).
Proof.
  unfold background_revalidate. apply round_trip_timed_nocrash; intros [|r] a b; [constructor|].
  constructor; intros own; destruct own; [|constructor].
  destruct (_ && _); [constructor|].
  unfold get_refs_clean; constructor; intros ans.
  apply NoCrash_bind; [|intros; constructor].
  apply handle_validation_nocrash; cbn [rc_refs].
  destruct ans; cbn; [apply no_nil_drop|reflexivity].
Qed.

Lemma handle_cache_hit_nocrash q stored k refs i :
  no_nil refs -> NoCrash (handle_cache_hit q stored k refs i).
Proof.
  intros Hn; unfold handle_cache_hit; constructor; intros now; cbv zeta.
  destruct (decide_hit q stored now).
  - constructor.
  - unfold handle_stale_while_revalidate; apply NC_Spawn; [apply background_revalidate_nocrash|constructor].
  - constructor.
  - apply round_trip_timed_nocrash; intros; apply handle_validation_nocrash; exact Hn.
Qed.

Lemma handle_unrecognized_nocrash q k : NoCrash (handle_unrecognized_method q k).
Proof.
  unfold handle_unrecognized_method; destruct (req_only_if_cached _); [constructor|]; constructor; intros [|r]; [constructor|].
  destruct (_ && _); [|constructor].
  unfold get_refs_clean; constructor; intros ans.
  apply invalidate_cache_nocrash; [|constructor].
  destruct ans; cbn; [apply no_nil_drop|reflexivity].
Qed.

(* the index chosen by the matcher lies within the list *)
Lemma find_match_bound l h s best i :
  find_match l h s best = Some (Some i) ->
  (exists t, best = Some (i, t)) \/ (s <= i < s + Z.of_nat (List.length l)).
Proof.
  revert s best; induction l as [|r l IH]; intros s best H; cbn in H.
  - destruct best as [[j t]|]; cbn in H; inversion H; subst; eauto.
  - destruct (ref_matches r h) as [[|]|]; try discriminate.
    + apply IH in H. destruct H as [[t Ht]|Hb].
      * destruct (match best with Some (_, t0) => t0 <=? r_recv r | None => true end).
        -- inversion Ht; subst. right. cbn [List.length]. lia.
        -- eauto.
      * right. cbn [List.length]. lia.
    + apply IH in H. destruct H as [?|Hb]; [auto|right; cbn [List.length]; lia].
Qed.

Theorem round_trip_nocrash q : NoCrash (round_trip q).
Proof.
  unfold round_trip. destruct (negb _); [apply handle_unrecognized_nocrash|].
  unfold get_refs_clean; constructor; intros ans.
  destruct (option_map drop_nil_refs ans) as [[|r l]|] eqn:E; try apply handle_cache_miss_nocrash.
  assert (Hn : no_nil (r :: l)).
  { destruct ans as [l0|]; cbn in E; [injection E as E; rewrite <- E; apply no_nil_drop|discriminate]. }
  unfold no_nil in Hn; rewrite Hn.
  unfold vary_headers_match.
  destruct (find_match _ _ _ _) as [[i|]|] eqn:F; [| apply handle_cache_miss_nocrash | constructor].
  apply find_match_bound in F. destruct F as [[t Ht]|Hb]; [discriminate|].
  destruct (nth_error _ _) eqn:N.
  - constructor; intros e; destruct e; [apply handle_cache_hit_nocrash, no_nil_map_some|apply handle_cache_miss_nocrash].
  - exfalso. apply nth_error_None in N. lia.
Qed.
