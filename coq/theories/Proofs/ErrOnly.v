(* ErrOnly.v — an error is returned only on a path on which an origin call failed (C10). *)
From HC Require Import Transport.
From HC.Proofs Require Import Paths.
Open Scope Z_scope.

Definition is_err (r : origin_reply) : bool := match r with RErr => true | RResp _ => false end.

(* [failed]: some origin call on the path so far answered with an error *)
Inductive ErrOnly : bool -> prog outcome -> Prop :=
| EO_Ret failed out : (out = OErr -> failed = true) -> out <> OPanic -> ErrOnly failed (Ret out)
| EO_GetRefs failed k c : (forall x, ErrOnly failed (c x)) -> ErrOnly failed (GetRefs k c)
| EO_GetEntry failed k c : (forall x, ErrOnly failed (c x)) -> ErrOnly failed (GetEntry k c)
| EO_SetEntry failed k e c : ErrOnly failed c -> ErrOnly failed (SetEntry k e c)
| EO_SetRefs failed k l c : ErrOnly failed c -> ErrOnly failed (SetRefs k l c)
| EO_Del failed k c : ErrOnly failed c -> ErrOnly failed (Del k c)
| EO_Origin failed r c : (forall x, ErrOnly (failed || is_err x) (c x)) -> ErrOnly failed (Origin r c)
| EO_Now failed c : (forall t, ErrOnly failed (c t)) -> ErrOnly failed (Now c)
| EO_Spawn failed p c : ErrOnly failed c -> ErrOnly failed (Spawn p c)
| EO_Crash failed : ErrOnly failed Crash
| EO_Unmodelled failed : ErrOnly failed Unmodelled.

Lemma ErrOnly_bind {A} failed (p : prog A) (k : A -> prog outcome) :
  NoOrigin p -> (forall a, ErrOnly failed (k a)) -> ErrOnly failed (bind p k).
Proof.
  intros Hp Hk; induction Hp; cbn [bind]; try (constructor; auto; fail); auto.
Qed.

Lemma resp_ok failed r : ErrOnly failed (Ret (OResp r)).
Proof. constructor; congruence. Qed.
Lemma err_ok : ErrOnly true (Ret OErr).
Proof. constructor; congruence. Qed.
#[export] Hint Resolve resp_ok err_ok : core.

Lemma store_response_noorigin q r k refs a b i : NoOrigin (store_response q r k refs a b i).
Proof.
  unfold store_response. destruct (normalize_vary _ _); [|constructor].
  destruct (p_body_ok _); repeat constructor.
Qed.

Lemma del_all_erronly failed ks done (c : list bytes -> prog outcome) :
  (forall d, ErrOnly failed (c d)) -> ErrOnly failed (del_all ks done c).
Proof.
  revert done; induction ks as [|k ks IH]; intros done H; cbn; auto.
  destruct (existsb _ _); auto. constructor; auto.
Qed.

Lemma invalidate_locations_erronly failed hs u h done (c : list bytes -> prog outcome) :
  (forall d, ErrOnly failed (c d)) -> ErrOnly failed (invalidate_locations hs u h done c).
Proof.
  revert done; induction hs as [|hn hs IH]; intros done H; cbn [invalidate_locations]; auto.
  destruct (hget hn h) eqn:E; [apply IH, H|].
  destruct (parse_url _) as [pr|]; [|constructor].
  destruct (same_origin _ _); [|apply IH, H].
  unfold get_refs_clean; constructor; intros ans.
  destruct (ref_ids _); [|constructor].
  apply del_all_erronly; intros d; apply IH, H.
Qed.

Lemma invalidate_cache_erronly failed u h refs key c :
  ErrOnly failed c -> ErrOnly failed (invalidate_cache u h refs key c).
Proof.
  intros Hc; unfold invalidate_cache. destruct (ref_ids _); [|constructor].
  apply del_all_erronly; intros d. apply invalidate_locations_erronly; intros d'.
  apply del_all_erronly; auto.
Qed.

Lemma handle_validation_erronly failed ctx q rep :
  ErrOnly (failed || is_err rep) (handle_validation_response ctx q rep).
Proof.
  unfold handle_validation_response. destruct rep as [|r]; cbn [is_err].
  - rewrite Bool.orb_true_r. cbn [andb].
    match goal with |- ErrOnly _ (if ?c then _ else _) => destruct c end; auto.
    constructor; intros now; destruct (can_stale_on_error _ _ _); auto.
  - rewrite Bool.orb_false_r.
    destruct (is_get (q_method q) && (p_status r =? 304)).
    + destruct (_ || _); auto. apply ErrOnly_bind; [apply store_response_noorigin|auto].
    + assert (Hafter : ErrOnly failed
        (let cc_resp := parse_cc (p_hdr r) in
         if can_store_response r (rc_cc_req ctx) cc_resp
         then r1 <- store_response q r (rc_url_key ctx) (rc_refs ctx) (rc_start ctx) (rc_end ctx) (rc_ref_index ctx);;
              Ret (OResp (with_hdr r1 (apply_status MISS (p_hdr r1))))
         else if is_unsafe_method (q_method q) && is_non_error_status (p_status r)
              then invalidate_cache (q_url q) (p_hdr r) (rc_refs ctx) (rc_url_key ctx)
                     (Ret (OResp (with_hdr r (apply_status BYPASS (p_hdr r)))))
              else Ret (OResp (with_hdr r (apply_status BYPASS (p_hdr r)))))).
      { cbv zeta. destruct (can_store_response _ _ _).
        - apply ErrOnly_bind; [apply store_response_noorigin|auto].
        - destruct (_ && _); [apply invalidate_cache_erronly|]; auto. }
      match goal with |- ErrOnly _ (if ?c then _ else _) => destruct c end; [|exact Hafter].
      constructor; intros now; destruct (can_stale_on_error _ _ _); [auto|exact Hafter].
Qed.

Lemma round_trip_timed_erronly failed q (c : origin_reply -> Z -> Z -> prog outcome) :
  (forall rep a b, ErrOnly (failed || is_err rep) (c rep a b)) -> ErrOnly failed (round_trip_timed q c).
Proof.
  intros H; unfold round_trip_timed; apply EO_Now; intros a; apply EO_Origin; intros rep;
  apply EO_Now; intros b; destruct rep as [|r]; [exact (H RErr a b)|exact (H (RResp (with_hdr r (fix_date_header (p_hdr r) b))) a b)].
Qed.

Lemma handle_cache_miss_erronly q k refs i : ErrOnly false (handle_cache_miss q k refs i).
Proof.
  unfold handle_cache_miss. destruct (req_only_if_cached _); auto.
  apply round_trip_timed_erronly; intros [|r] a b; cbn; auto.
  destruct (_ && _); auto. apply ErrOnly_bind; [apply store_response_noorigin|auto].
Qed.

Lemma handle_cache_hit_erronly q stored k refs i : ErrOnly false (handle_cache_hit q stored k refs i).
Proof.
  unfold handle_cache_hit; constructor; intros now; cbv zeta.
  destruct (decide_hit q stored now).
  - unfold serve_from_cache; auto.
  - unfold handle_stale_while_revalidate; constructor; auto.
  - unfold response_504; auto.
  - apply round_trip_timed_erronly; intros; apply handle_validation_erronly.
Qed.

Lemma handle_unrecognized_erronly q k : ErrOnly false (handle_unrecognized_method q k).
Proof.
  unfold handle_unrecognized_method; destruct (req_only_if_cached _); [apply EO_Ret; [intros E; discriminate|intros E; discriminate]|]; constructor; intros [|r]; cbn; auto.
  destruct (_ && _); auto.
  unfold get_refs_clean; constructor; intros ans. apply invalidate_cache_erronly; auto.
Qed.

Theorem round_trip_erronly q : ErrOnly false (round_trip q).
Proof.
  unfold round_trip. destruct (negb _); [apply handle_unrecognized_erronly|].
  unfold get_refs_clean; constructor; intros ans.
  destruct (option_map drop_nil_refs ans) as [[|r l]|]; try apply handle_cache_miss_erronly.
  destruct (has_nil_ref _); [constructor|].
  destruct (vary_headers_match _ _) as [[sorted [i|]]|]; [|apply handle_cache_miss_erronly|constructor].
  destruct (nth_error _ _); [|constructor].
  constructor; intros e; destruct e; [apply handle_cache_hit_erronly|apply handle_cache_miss_erronly].
Qed.
