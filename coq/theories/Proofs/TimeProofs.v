(* TimeProofs.v — the instants stored with an entry (Response.RequestedAt / ReceivedAt, from which ages are
   computed) are the start and end instants of one origin call of the history, made for a request with the URL key
   the entry is stored under: they cannot be anything else, along any sequential history.
   Tree predicate [SafeT] with a clock context (what is known about the clock since the last reading / call) and a
   semantic preservation lemma for [run], [exchange], [run_history]. *)
From HC Require Import Transport Run.
From HC.Proofs Require Import Paths HeaderProofs RunProofs ProvProofs.
Open Scope Z_scope.

Inductive tctx := CU | CR (t : Z) | CA (a : Z).
(* after an origin call: its start reading is remembered when the clock had just been read *)
Definition after_call (c : tctx) : tctx := match c with CR a => CA a | _ => CU end.

Section SafeT.
  Variable GT : bytes -> Z -> Z -> Prop.   (* [GT u a b]: an origin call for URL key u started at a and ended at b *)
  Variable u : bytes.

  Definition now_ok (c : tctx) (t : Z) : Prop :=
    match c with CU => True | CR t0 => t = t0 | CA a => GT u a t end.

  Inductive SafeT {A : Type} : tctx -> prog A -> Prop :=
  | ST_Ret c a : SafeT c (Ret a)
  | ST_GetRefs c k f : (forall ans, SafeT c (f ans)) -> SafeT c (GetRefs k f)
  | ST_GetEntry c k f : (forall ans, SafeT c (f ans)) -> SafeT c (GetEntry k f)
  | ST_SetEntry c k e f : GT u (e_req_at e) (e_recv_at e) -> SafeT c f -> SafeT c (SetEntry k e f)
  | ST_SetRefs c k l f : SafeT c f -> SafeT c (SetRefs k l f)
  | ST_Del c k f : SafeT c f -> SafeT c (Del k f)
  | ST_Origin c q f : make_url_key (q_url q) = u -> (forall rep, SafeT (after_call c) (f rep)) -> SafeT c (Origin q f)
  | ST_Now c f : (forall t, now_ok c t -> SafeT (CR t) (f t)) -> SafeT c (Now f)
  | ST_Spawn c p f : SafeT CU p -> SafeT c f -> SafeT c (Spawn p f)
  | ST_Crash c : SafeT c Crash
  | ST_Unmodelled c : SafeT c Unmodelled.

  Definition SafeT_inv {A} (c : tctx) (p : prog A) : Prop :=
    match p with
    | Ret _ => True
    | GetRefs k f => forall ans, SafeT c (f ans)
    | GetEntry k f => forall ans, SafeT c (f ans)
    | SetEntry k e f => GT u (e_req_at e) (e_recv_at e) /\ SafeT c f
    | SetRefs k l f => SafeT c f
    | Del k f => SafeT c f
    | Origin q f => make_url_key (q_url q) = u /\ forall rep, SafeT (after_call c) (f rep)
    | Now f => forall t, now_ok c t -> SafeT (CR t) (f t)
    | Spawn b f => SafeT CU b /\ SafeT c f
    | Crash => True
    | Unmodelled => True
    end.
  Lemma SafeT_inversion {A} c (p : prog A) : SafeT c p -> SafeT_inv c p.
  Proof. destruct 1; cbn; auto. Qed.

  Lemma SafeT_bind {A B} c (p : prog A) (f : A -> prog B) :
    SafeT c p -> (forall c' a, SafeT c' (f a)) -> SafeT c (bind p f).
  Proof. intros Hp Hf. induction Hp; cbn [bind]; try (constructor; auto; fail). apply Hf. Qed.

  (* ---------- the programs of the transport ---------- *)
  Lemma store_response_safeT c q r refs a b i : GT u a b -> SafeT c (store_response q r u refs a b i).
  Proof.
    intros H. unfold store_response. destruct (normalize_vary _ _); [|constructor].
    cbn [p_body_ok with_hdr]. destruct (p_body_ok r).
    - apply ST_SetEntry; [exact H|]. apply ST_SetRefs. constructor.
    - apply ST_SetRefs. constructor.
  Qed.

  Lemma del_all_safeT {A} c ks : forall done (f : list bytes -> prog A),
    (forall d, SafeT c (f d)) -> SafeT c (del_all ks done f).
  Proof. induction ks as [|k ks IH]; intros done f H; cbn; auto. destruct (existsb _ _); auto. constructor; auto. Qed.

  Lemma invalidate_locations_safeT {A} c ru h hs : forall done (f : list bytes -> prog A),
    (forall d, SafeT c (f d)) -> SafeT c (invalidate_locations hs ru h done f).
  Proof.
    induction hs as [|hn hs IH]; intros done f Hf; cbn [invalidate_locations]; auto.
    destruct (hget hn h); [apply IH, Hf|]. destruct (parse_url _); [|constructor].
    destruct (same_origin _ _); [|apply IH, Hf].
    unfold get_refs_clean. constructor. intros ans. destruct (ref_ids _); [|constructor].
    apply del_all_safeT. intros d'. apply IH, Hf.
  Qed.

  Lemma invalidate_cache_safeT {A} c ru h refs key (f : prog A) : SafeT c f -> SafeT c (invalidate_cache ru h refs key f).
  Proof.
    intros Hf. unfold invalidate_cache. destruct (ref_ids _); [|constructor].
    apply del_all_safeT. intros d. apply invalidate_locations_safeT. intros d'. apply del_all_safeT. auto.
  Qed.

  Lemma hvr_safeT c ctx q rep : rc_url_key ctx = u -> GT u (rc_start ctx) (rc_end ctx) ->
    SafeT c (handle_validation_response ctx q rep).
  Proof.
    intros Hu Hg. unfold handle_validation_response. rewrite Hu.
    destruct rep as [|r].
    - cbn [andb]. match goal with |- SafeT _ (if ?x then _ else _) => destruct x end; [|constructor].
      constructor. intros now _. destruct (can_stale_on_error _ _ _); constructor.
    - destruct (is_get (q_method q) && (p_status r =? 304)).
      + destruct (_ || _); [constructor|].
        apply SafeT_bind; [apply store_response_safeT, Hg|intros; constructor].
      + assert (Hafter : forall c', SafeT c'
          (let cc_resp := parse_cc (p_hdr r) in
           if can_store_response r (rc_cc_req ctx) cc_resp
           then r1 <- store_response q r u (rc_refs ctx) (rc_start ctx) (rc_end ctx) (rc_ref_index ctx);;
                Ret (OResp (with_hdr r1 (apply_status MISS (p_hdr r1))))
           else if is_unsafe_method (q_method q) && is_non_error_status (p_status r)
                then invalidate_cache (q_url q) (p_hdr r) (rc_refs ctx) u
                       (Ret (OResp (with_hdr r (apply_status BYPASS (p_hdr r)))))
                else Ret (OResp (with_hdr r (apply_status BYPASS (p_hdr r)))))).
        { intros c'. cbv zeta. destruct (can_store_response _ _ _).
          - apply SafeT_bind; [apply store_response_safeT, Hg|intros; constructor].
          - destruct (_ && _); [apply invalidate_cache_safeT|]; constructor. }
        match goal with |- SafeT _ (if ?x then _ else _) => destruct x end; [|apply Hafter].
        constructor. intros now _. destruct (can_stale_on_error _ _ _); [constructor|apply Hafter].
  Qed.

  Lemma rtt_safeT {A} c q (f : origin_reply -> Z -> Z -> prog A) :
    make_url_key (q_url q) = u ->
    (forall rep a b, GT u a b -> SafeT (CR b) (f rep a b)) ->
    SafeT c (round_trip_timed q f).
  Proof.
    intros Hu Hf. unfold round_trip_timed. constructor. intros a _. apply ST_Origin; [exact Hu|].
    intros rep. cbn [after_call]. constructor. intros b Hb. cbn [now_ok] in Hb. destruct rep; apply Hf, Hb.
  Qed.

  Lemma miss_safeT c q refs i : make_url_key (q_url q) = u -> SafeT c (handle_cache_miss q u refs i).
  Proof.
    intros Hu. unfold handle_cache_miss. destruct (req_only_if_cached _); [constructor|].
    apply rtt_safeT; [exact Hu|]. intros [|r] a b Hg; [constructor|]. cbv zeta.
    destruct (_ && _); [|constructor]. apply SafeT_bind; [apply store_response_safeT, Hg|intros; constructor].
  Qed.

  Lemma bg_safeT c q stored f cc : make_url_key (q_url q) = u -> SafeT c (background_revalidate q stored u f cc).
  Proof.
    intros Hu. unfold background_revalidate. apply rtt_safeT; [exact Hu|].
    intros [|r] a b Hg; [constructor|]. constructor. intros own. destruct own as [own|]; [|constructor].
    destruct (_ && _); [constructor|]. unfold get_refs_clean. constructor. intros ans.
    apply SafeT_bind; [|intros; constructor]. apply hvr_safeT; [reflexivity|exact Hg].
  Qed.

  Lemma hit_safeT c q stored refs i : make_url_key (q_url q) = u -> SafeT c (handle_cache_hit q stored u refs i).
  Proof.
    intros Hu. unfold handle_cache_hit. constructor. intros now _. cbv zeta.
    destruct (decide_hit q stored now).
    - constructor.
    - unfold handle_stale_while_revalidate. apply ST_Spawn; [apply bg_safeT; exact Hu|constructor].
    - constructor.
    - apply rtt_safeT; [exact Hu|]. intros rep a b Hg. apply hvr_safeT; [reflexivity|exact Hg].
  Qed.
End SafeT.

Theorem round_trip_safeT GT q c : SafeT GT (make_url_key (q_url q)) c (round_trip q).
Proof.
  set (u := make_url_key (q_url q)). unfold round_trip. fold u. destruct (negb _).
  - unfold handle_unrecognized_method. destruct (req_only_if_cached _); [constructor|]. apply ST_Origin; [reflexivity|]. intros [|r]; [constructor|].
    destruct (_ && _); [|constructor]. unfold get_refs_clean. constructor. intros ans. apply invalidate_cache_safeT. constructor.
  - unfold get_refs_clean. constructor. intros ans.
    destruct ans as [l|]; cbn [option_map]; [|apply miss_safeT; reflexivity].
    destruct (drop_nil_refs l) as [|x l']; [apply miss_safeT; reflexivity|].
    destruct (has_nil_ref (x :: l')); [constructor|].
    destruct (vary_headers_match _ _) as [[sorted oi]|]; [|constructor].
    destruct oi as [i|]; [|apply miss_safeT; reflexivity].
    destruct (nth_error sorted (Z.to_nat i)) as [r|]; [|constructor].
    constructor. intros e. destruct e as [stored|]; [apply hit_safeT; reflexivity|apply miss_safeT; reflexivity].
Qed.

(* ---------- the semantic side ---------- *)
Definition GTl (L : list event) (u : bytes) (a b : Z) : Prop :=
  exists idx q rep, In (EvCall idx q a b rep) L /\ make_url_key (q_url q) = u.
Definition ctx_ok (L : list event) (u : bytes) (c : tctx) (w : world) : Prop :=
  match c with CU => True | CR t => w_clock w = t | CA a => GTl L u a (w_clock w) end.
Definition InvT (L : list event) (s : store) : Prop :=
  forall k e, get_entry s k = Some e -> exists u, GTl L u (e_req_at e) (e_recv_at e).
Definition pend_ok (L : list event) (p : prog unit) : Prop := exists u, SafeT (GTl L) u CU p.

Lemma do_origin_times limit q w : exists idx rep',
  w_log (snd (do_origin limit q w)) = EvCall idx q (w_clock w) (w_clock (snd (do_origin limit q w))) rep' :: w_log w /\
  w_store (snd (do_origin limit q w)) = w_store w /\ w_pending (snd (do_origin limit q w)) = w_pending w.
Proof.
  unfold do_origin. destruct (w_script w) as [|[[d r0] rc] t]; destruct limit as [T|]; cbn;
    try destruct (T <? _); cbn; eexists _, _; repeat split.
Qed.

Lemma InvT_set_entry L s k e : InvT L s -> (exists u, GTl L u (e_req_at e) (e_recv_at e)) -> InvT L (aset k (SEntry e) s).
Proof.
  intros I He k' e' H. destruct (beq k' k) eqn:E.
  - apply beq_eq in E. subst k'. rewrite get_entry_aset_same in H. injection H as <-. exact He.
  - rewrite get_entry_aset_other in H by exact E. apply (I k' e' H).
Qed.
Lemma InvT_set_refs L s k l : InvT L s -> InvT L (aset k (SRefs l) s).
Proof.
  intros I k' e' H. destruct (beq k' k) eqn:E.
  - apply beq_eq in E. subst k'. rewrite get_entry_aset_refs in H. discriminate.
  - rewrite get_entry_aset_other in H by exact E. apply (I k' e' H).
Qed.
Lemma InvT_del L s k : InvT L s -> InvT L (aremove k s).
Proof. intros I k' e' H. rewrite get_entry_aremove in H. destruct (beq k' k); [discriminate|]. apply (I k' e' H). Qed.

Lemma run_safeT {A} (p : prog A) : forall c u Lf limit w res w',
  SafeT (GTl Lf) u c p -> ctx_ok Lf u c w -> InvT Lf (w_store w) -> Forall (pend_ok Lf) (w_pending w) ->
  run limit p w = (res, w') -> incl (w_log w') Lf ->
  InvT Lf (w_store w') /\ Forall (pend_ok Lf) (w_pending w').
Proof.
  induction p as [A0 a|A0 k f IH|A0 k f IH|A0 k e f IH|A0 k l f IH|A0 k f IH|A0 r f IH|A0 f IH|A0 b IHb f IHf|A0|A0];
    intros c u Lf limit w res w' HS Hc HI HP H Hincl; cbn [run] in H; apply SafeT_inversion in HS; cbn [SafeT_inv] in HS.
  - injection H as _ <-. split; assumption.
  - refine (IH _ c u Lf limit _ res w' (HS _) _ _ _ H Hincl); [destruct c; exact Hc|exact HI|exact HP].
  - refine (IH _ c u Lf limit _ res w' (HS _) _ _ _ H Hincl); [destruct c; exact Hc|exact HI|exact HP].
  - destruct HS as [Hg HS]. refine (IH c u Lf limit _ res w' HS _ _ _ H Hincl); [destruct c; exact Hc| |exact HP].
    cbn. apply InvT_set_entry; [exact HI|exists u; exact Hg].
  - refine (IH c u Lf limit _ res w' HS _ _ _ H Hincl); [destruct c; exact Hc| |exact HP]. cbn. apply InvT_set_refs, HI.
  - refine (IH c u Lf limit _ res w' HS _ _ _ H Hincl); [destruct c; exact Hc| |exact HP]. cbn. apply InvT_del, HI.
  - destruct HS as [Hu HS].
    destruct (do_origin_times limit r w) as (idx & rep' & Hl & Hst & Hpe). destruct (do_origin limit r w) as [rep w1] eqn:Ed. cbn [fst snd] in *.
    destruct (run_log_mono _ _ _ _ _ H) as [[y Hy] _].
    refine (IH _ (after_call c) u Lf limit _ res w' (HS _) _ _ _ H Hincl); [|rewrite Hst; exact HI|rewrite Hpe; exact HP].
    destruct c as [|a|a]; cbn [after_call ctx_ok]; try exact I.
    cbn [ctx_ok] in Hc. exists idx, r, rep'. split; [|exact Hu].
    apply Hincl. rewrite Hy, Hl. apply in_or_app. right. left. rewrite Hc. reflexivity.
  - refine (IH _ (CR (w_clock w)) u Lf limit _ res w' (HS _ _) _ HI HP H Hincl); [|reflexivity].
    destruct c as [|t0|a]; cbn [now_ok ctx_ok] in *; [exact I|exact Hc|exact Hc].
  - destruct HS as [Hb HS]. refine (IHf c u Lf limit _ res w' HS _ _ _ H Hincl); [destruct c; exact Hc|exact HI|].
    cbn. apply Forall_app. split; [exact HP|]. constructor; [exists u; exact Hb|constructor].
  - injection H as _ <-. split; assumption.
  - injection H as _ <-. split; assumption.
Qed.

Lemma run_pending_safeT Lf T ps : forall w ok w', Forall (pend_ok Lf) ps -> InvT Lf (w_store w) ->
  Forall (pend_ok Lf) (w_pending w) -> run_pending T ps w = (ok, w') -> incl (w_log w') Lf -> InvT Lf (w_store w').
Proof.
  induction ps as [|p r IH]; intros w ok w' Hps HI HP H Hincl; cbn [run_pending] in H.
  - injection H as _ <-. exact HI.
  - inversion Hps as [|? ? [u Hp] Hr]; subst. destruct (run (Some T) p w) as [res w1] eqn:E.
    assert (Hincl1 : incl (w_log w1) Lf).
    { destruct res.
      - destruct (run_pending_log_mono _ _ _ _ _ H) as [y Hy]. intros x Hx. apply Hincl. rewrite Hy. apply in_or_app. right. exact Hx.
      - injection H as _ <-. exact Hincl.
      - injection H as _ <-. exact Hincl. }
    destruct (run_safeT p CU u Lf (Some T) w res w1 Hp I HI HP E Hincl1) as (HI1 & HP1).
    destruct res.
    + eapply IH; [exact Hr|exact HI1|exact HP1|exact H|exact Hincl].
    + injection H as _ <-. exact HI1.
    + injection H as _ <-. exact HI1.
Qed.

Theorem exchange_safeT Lf cfg q w obs w' :
  InvT Lf (w_store w) -> exchange cfg q w = (obs, w') -> incl (x_events obs ++ x_bg_events obs) Lf ->
  InvT Lf (w_store w').
Proof.
  intros HI H Hincl. unfold exchange in H.
  destruct (run None (round_trip q) (clear_log_pending w)) as [res w1] eqn:E1.
  destruct (run_pending (effective_swr_timeout (cfg_swr_timeout cfg)) (w_pending w1) (clear_log_pending w1)) as [ok w2] eqn:E2.
  injection H as <- <-. cbn [x_events x_bg_events] in *.
  assert (Hfg : incl (w_log w1) Lf) by (apply incl_rev_l; intros x Hx; apply Hincl; apply in_or_app; left; exact Hx).
  assert (Hbg : incl (w_log w2) Lf) by (apply incl_rev_l; intros x Hx; apply Hincl; apply in_or_app; right; exact Hx).
  destruct (run_safeT (round_trip q) CU (make_url_key (q_url q)) Lf None (clear_log_pending w) res w1
              (round_trip_safeT (GTl Lf) q CU) I HI (Forall_nil _) E1 Hfg) as (HI1 & HP1).
  exact (run_pending_safeT Lf _ _ (clear_log_pending w1) ok w2 HP1 HI1 (Forall_nil _) E2 Hbg).
Qed.

(* every entry in the store after any prefix of a sequential history carries the instants of an origin call of the history *)
Fixpoint final_world (cfg : config) (h : history) (w : world) : world :=
  match h with
  | [] => w
  | (gap, q) :: r =>
      final_world cfg r (snd (exchange cfg q {| w_store := w_store w; w_clock := w_clock w + gap; w_script := w_script w;
                                                w_calls := w_calls w; w_log := []; w_pending := [] |}))
  end.

Theorem history_safeT Lf cfg h : forall w,
  InvT Lf (w_store w) ->
  incl (flat_map (fun o => x_events o ++ x_bg_events o) (run_history cfg h w)) Lf ->
  InvT Lf (w_store (final_world cfg h w)).
Proof.
  induction h as [|[gap q] h IH]; intros w HI Hincl; [exact HI|].
  cbn [run_history final_world] in *.
  destruct (exchange cfg q {| w_store := w_store w; w_clock := w_clock w + gap; w_script := w_script w;
                              w_calls := w_calls w; w_log := []; w_pending := [] |}) as [obs w2] eqn:E.
  cbn [flat_map snd] in *. apply IH.
  - refine (exchange_safeT Lf cfg q {| w_store := w_store w; w_clock := w_clock w + gap; w_script := w_script w;
                              w_calls := w_calls w; w_log := []; w_pending := [] |} obs w2 HI E _).
    intros x Hx. apply Hincl. apply in_or_app. left. exact Hx.
  - intros x Hx. apply Hincl. apply in_or_app. right. exact Hx.
Qed.
