(* ProgEq.v — equality of effect trees up to the extensional equality of their continuations (no axiom of
   functional extensionality is used anywhere in the development): [peq p p'] — the same operations with the same
   arguments, and for every answer of the environment, related continuations.  Related programs run alike. *)
From HC Require Import Transport Run.
Open Scope Z_scope.

Inductive peq {A : Type} : prog A -> prog A -> Prop :=
| PE_Ret a : peq (Ret a) (Ret a)
| PE_GetRefs k c c' : (forall x, peq (c x) (c' x)) -> peq (GetRefs k c) (GetRefs k c')
| PE_GetEntry k c c' : (forall x, peq (c x) (c' x)) -> peq (GetEntry k c) (GetEntry k c')
| PE_SetEntry k e c c' : peq c c' -> peq (SetEntry k e c) (SetEntry k e c')
| PE_SetRefs k l c c' : peq c c' -> peq (SetRefs k l c) (SetRefs k l c')
| PE_Del k c c' : peq c c' -> peq (Del k c) (Del k c')
| PE_Origin r c c' : (forall x, peq (c x) (c' x)) -> peq (Origin r c) (Origin r c')
| PE_Now c c' : (forall t, peq (c t) (c' t)) -> peq (Now c) (Now c')
| PE_Spawn p c c' : peq c c' -> peq (Spawn p c) (Spawn p c')
| PE_Crash : peq Crash Crash
| PE_Unmodelled : peq Unmodelled Unmodelled.

Lemma peq_refl {A} (p : prog A) : peq p p.
Proof. induction p; constructor; auto. Qed.

Lemma peq_sym {A} (p p' : prog A) : peq p p' -> peq p' p.
Proof. induction 1; constructor; auto. Qed.

Lemma peq_bind {A B} (p p' : prog A) (f f' : A -> prog B) :
  peq p p' -> (forall a, peq (f a) (f' a)) -> peq (bind p f) (bind p' f').
Proof. intros H Hf. induction H; cbn [bind]; try (constructor; auto; fail). apply Hf. Qed.

Lemma peq_del_all {A} ks : forall done (c c' : list bytes -> prog A),
  (forall d, peq (c d) (c' d)) -> peq (del_all ks done c) (del_all ks done c').
Proof. induction ks as [|k ks IH]; intros done c c' H; cbn; auto. destruct (existsb _ _); auto. constructor. auto. Qed.

(* related programs run alike: same result, same final world *)
Lemma run_peq {A} (p p' : prog A) : peq p p' -> forall limit w, run limit p w = run limit p' w.
Proof.
  induction 1; intros limit w; cbn [run]; auto.
  destruct (do_origin limit r w). auto.
Qed.
