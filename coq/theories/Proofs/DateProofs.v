(* DateProofs.v — the HTTP-date codec: what http.TimeFormat writes, http.ParseTime reads back (years 1970..9999). *)
From HC Require Import Date.
From Coq Require Import ZArith List Lia Bool.
Import ListNotations.
Open Scope Z_scope.

(* ---------- a finite range of integers, by binary recursion ---------- *)
Fixpoint range (p : positive) (base : Z) : list Z :=
  match p with
  | xH => [base]
  | xO p' => range p' base ++ range p' (base + Zpos p')
  | xI p' => base :: range p' (base + 1) ++ range p' (base + 1 + Zpos p')
  end.

Lemma range_in p : forall base z, base <= z < base + Zpos p -> In z (range p base).
Proof.
  induction p as [p IH|p IH|]; intros base z H; cbn [range].
  - destruct (Z.eq_dec z base) as [->|Hn]; [left; reflexivity|right]. apply in_or_app.
    destruct (Z_lt_ge_dec z (base + 1 + Zpos p)); [left|right]; apply IH; lia.
  - apply in_or_app. destruct (Z_lt_ge_dec z (base + Zpos p)); [left|right]; apply IH; lia.
  - left. lia.
Qed.

(* ---------- one 400-year era, by computation ---------- *)
(* day-of-era doe (counted from 0000-03-01): the civil date computed for it is a valid date whose day number is
   doe again; before 0400-01-01 (doe 146037) the year is at most 399 *)
Definition civil_ok (doe : Z) : bool :=
  let '(y, m, d) := civil_from_days (doe - 719468) in
  (0 <=? y) && (y <=? 400) && (1 <=? m) && (m <=? 12) && (1 <=? d) && (d <=? days_in_month y m) &&
  (days_from_civil y m d =? doe - 719468) && ((146037 <=? doe) || (y <=? 399)).

Lemma era_sweep : forallb civil_ok (range 146097 0) = true.
Proof. vm_compute. reflexivity. Qed.

Lemma civil_ok_all doe : 0 <= doe < 146097 -> civil_ok doe = true.
Proof.
  intros H. apply (proj1 (forallb_forall civil_ok (range 146097 0)) era_sweep). apply range_in. lia.
Qed.

(* ---------- eras repeat ---------- *)
Lemma civil_shift z0 k :
  civil_from_days (z0 + 146097 * k) = let '(y, m, d) := civil_from_days z0 in (y + 400 * k, m, d).
Proof.
  unfold civil_from_days.
  replace (z0 + 146097 * k + 719468) with (z0 + 719468 + k * 146097) by ring.
  rewrite Z.div_add by lia.
  set (z := z0 + 719468). set (era := z / 146097).
  replace (z + k * 146097 - (era + k) * 146097) with (z - era * 146097) by ring.
  set (doe := z - era * 146097). cbv zeta.
  set (yoe := (doe - doe / 1460 + doe / 36524 - doe / 146096) / 365).
  set (doy := doe - (365 * yoe + yoe / 4 - yoe / 100)).
  set (mp := (5 * doy + 2) / 153).
  destruct ((if mp <? 10 then mp + 3 else mp - 9) <=? 2); f_equal; f_equal; ring.
Qed.

Lemma days_shift y m d k : days_from_civil (y + 400 * k) m d = days_from_civil y m d + 146097 * k.
Proof.
  unfold days_from_civil.
  assert (E : (if m <=? 2 then y + 400 * k - 1 else y + 400 * k) = (if m <=? 2 then y - 1 else y) + k * 400)
    by (destruct (m <=? 2); ring).
  rewrite E. set (y' := if m <=? 2 then y - 1 else y). rewrite Z.div_add by lia. cbv zeta.
  replace (y' + k * 400 - (y' / 400 + k) * 400) with (y' - y' / 400 * 400) by ring. ring.
Qed.

Lemma is_leap_shift y k : is_leap (y + 400 * k) = is_leap y.
Proof.
  unfold is_leap.
  assert (E4 : (y + 400 * k) mod 4 = y mod 4) by (replace (y + 400 * k) with (y + (100 * k) * 4) by ring; apply Z.mod_add; lia).
  assert (E100 : (y + 400 * k) mod 100 = y mod 100) by (replace (y + 400 * k) with (y + (4 * k) * 100) by ring; apply Z.mod_add; lia).
  assert (E400 : (y + 400 * k) mod 400 = y mod 400) by (replace (y + 400 * k) with (y + k * 400) by ring; apply Z.mod_add; lia).
  rewrite E4, E100, E400. reflexivity.
Qed.

Lemma dim_shift y m k : days_in_month (y + 400 * k) m = days_in_month y m.
Proof. unfold days_in_month. rewrite is_leap_shift. reflexivity. Qed.

(* every day from 1970-01-01 to 9999-12-31: a valid civil date with a four-digit year, and the inverse *)
Theorem civil_roundtrip days : 0 <= days < 2932897 ->
  let '(y, m, d) := civil_from_days days in
  0 <= y <= 9999 /\ 1 <= m <= 12 /\ 1 <= d <= days_in_month y m /\ days_from_civil y m d = days.
Proof.
  intros H. set (z := days + 719468). set (k := z / 146097). set (doe := z mod 146097).
  assert (Hz : z = 146097 * k + doe) by (apply Z.div_mod; lia).
  assert (Hdoe : 0 <= doe < 146097) by (apply Z.mod_pos_bound; lia).
  assert (Hk : 4 <= k <= 24) by (unfold k, z; split; [apply Z.div_le_lower_bound|apply Z.lt_succ_r, Z.div_lt_upper_bound]; lia).
  replace days with (doe - 719468 + 146097 * k) by lia.
  rewrite civil_shift. pose proof (civil_ok_all doe Hdoe) as Hok. unfold civil_ok in Hok.
  destruct (civil_from_days (doe - 719468)) as [[y m] d].
  rewrite !andb_true_iff, orb_true_iff in Hok. destruct Hok as [[[[[[[Hy0 Hy1] Hm0] Hm1] Hd0] Hd1] Hinv] Hlast].
  rewrite dim_shift, days_shift.
  apply Z.leb_le in Hy0, Hy1, Hm0, Hm1, Hd0, Hd1. apply Z.eqb_eq in Hinv.
  unfold z in Hz. repeat split; lia.
Qed.

(* ---------- digits ---------- *)
Ltac Zify.zify_post_hook ::= Z.div_mod_to_equations.

Lemma is_digit_48 k : 0 <= k <= 9 -> is_digit (48 + k) = true.
Proof. intros H. unfold is_digit. apply andb_true_iff. split; apply Z.leb_le; lia. Qed.

Lemma num2_two_digits n : 0 <= n < 100 -> num2 (48 + n / 10) (48 + n mod 10) = Some n.
Proof.
  intros H. unfold num2. rewrite !is_digit_48 by lia. cbn [andb]. f_equal. lia.
Qed.

(* ---------- the reader on an explicitly spelt date ---------- *)
Lemma parse_spelt w1 w2 w3 m1 m2 m3 mo d y h mi se :
  amem_list [w1; w2; w3] day_names = true -> index_of [m1; m2; m3] month_names 1 = Some mo ->
  0 <= d < 100 -> 0 <= y < 10000 -> 0 <= h < 100 -> 0 <= mi < 100 -> 0 <= se < 100 ->
  parse_imf_fixdate ([w1; w2; w3; 44; 32] ++ two_digits d ++ [32; m1; m2; m3; 32] ++ four_digits y ++ [32] ++
                     two_digits h ++ [58] ++ two_digits mi ++ [58] ++ two_digits se ++ [32; 71; 77; 84]) =
  if (1 <=? d) && (d <=? days_in_month y mo) && (h <? 24) && (mi <? 60) && (se <? 60)
  then Some (days_from_civil y mo d * 86400 + h * 3600 + mi * 60 + se) else None.
Proof.
  intros Hw Hm Hd Hy Hh Hmi Hse. unfold two_digits, four_digits. cbn [app]. unfold parse_imf_fixdate.
  rewrite Hw, Hm. cbn [Z.eqb Pos.eqb andb].
  rewrite (num2_two_digits d Hd), (num2_two_digits h Hh), (num2_two_digits mi Hmi), (num2_two_digits se Hse).
  replace (num2 (48 + y / 1000) (48 + y / 100 mod 10)) with (Some (y / 100)).
  2:{ symmetry. replace (y / 1000) with (y / 100 / 10) by (rewrite Z.div_div by lia; reflexivity). apply num2_two_digits. lia. }
  replace (num2 (48 + y / 10 mod 10) (48 + y mod 10)) with (Some (y mod 100)).
  2:{ symmetry. replace (y / 10 mod 10) with (y mod 100 / 10) by lia. replace (y mod 10) with (y mod 100 mod 10) by lia.
      apply num2_two_digits. lia. }
  replace (y / 100 * 100 + y mod 100) with y by lia. reflexivity.
Qed.

(* ---------- names ---------- *)
Lemma day_name wd : 0 <= wd < 7 ->
  exists a b c, nth (Z.to_nat wd) day_names [] = [a; b; c] /\ amem_list [a; b; c] day_names = true.
Proof.
  intros H. assert (E : wd = 0 \/ wd = 1 \/ wd = 2 \/ wd = 3 \/ wd = 4 \/ wd = 5 \/ wd = 6) by lia.
  destruct E as [->|[->|[->|[->|[->|[->| ->]]]]]]; do 3 eexists; split; reflexivity.
Qed.

Lemma month_name m : 1 <= m <= 12 ->
  exists a b c, nth (Z.to_nat (m - 1)) month_names [] = [a; b; c] /\ index_of [a; b; c] month_names 1 = Some m.
Proof.
  intros H.
  assert (E : m = 1 \/ m = 2 \/ m = 3 \/ m = 4 \/ m = 5 \/ m = 6 \/ m = 7 \/ m = 8 \/ m = 9 \/ m = 10 \/ m = 11 \/ m = 12) by lia.
  destruct E as [->|[->|[->|[->|[->|[->|[->|[->|[->|[->|[->| ->]]]]]]]]]]]; do 3 eexists; split; reflexivity.
Qed.

(* ---------- what http.TimeFormat writes, http.ParseTime reads back: every second from 1970 to the end of 9999 ---------- *)
Theorem imf_fixdate_roundtrip s : 0 <= s < 253402300800 -> parse_imf_fixdate (format_imf_fixdate s) = Some s.
Proof.
  intros H. unfold format_imf_fixdate.
  set (days := s / 86400). set (rem := s mod 86400).
  assert (Hdays : 0 <= days < 2932897) by (unfold days; lia).
  assert (Hrem : 0 <= rem < 86400) by (unfold rem; lia).
  pose proof (civil_roundtrip days Hdays) as Hc.
  destruct (civil_from_days days) as [[y m] d]. destruct Hc as (Hy & Hm & Hd & Hinv).
  destruct (day_name ((days + 4) mod 7)) as (w1 & w2 & w3 & Ew & Hw); [lia|].
  destruct (month_name m Hm) as (m1 & m2 & m3 & Em & Hmo).
  rewrite Ew, Em.
  assert (Hdim : days_in_month y m <= 31) by (unfold days_in_month; repeat match goal with |- context [if ?c then _ else _] => destruct c end; lia).
  transitivity (parse_imf_fixdate ([w1; w2; w3; 44; 32] ++ two_digits d ++ [32; m1; m2; m3; 32] ++ four_digits y ++ [32] ++
                     two_digits (rem / 3600) ++ [58] ++ two_digits (rem / 60 mod 60) ++ [58] ++ two_digits (rem mod 60) ++ [32; 71; 77; 84]));
    [reflexivity|].
  rewrite (parse_spelt w1 w2 w3 m1 m2 m3 m d y _ _ _ Hw Hmo) by lia.
  replace ((1 <=? d) && (d <=? days_in_month y m) && (rem / 3600 <? 24) && (rem / 60 mod 60 <? 60) && (rem mod 60 <? 60)) with true
    by (symmetry; rewrite !andb_true_iff; repeat split; try apply Z.leb_le; try apply Z.ltb_lt; lia).
  f_equal. rewrite Hinv. unfold days, rem. lia.
Qed.

(* ... and so does the dispatcher over the three forms *)
Corollary http_time_roundtrip s : 0 <= s < 253402300800 -> parse_http_time (format_imf_fixdate s) = Some s.
Proof. intros H. unfold parse_http_time. rewrite (imf_fixdate_roundtrip s H). reflexivity. Qed.
