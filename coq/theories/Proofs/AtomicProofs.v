(* AtomicProofs.v — every completed Get returns a complete value of some Set (or the previous value),
   or reports the key absent: under every interleaving, short/failed writes and crashes (C15). *)
From HC Require Import FsAtomic.
From HC.Proofs Require Import HeaderProofs.
Open Scope Z_scope.

Lemma ilookup_iset_same n c l : ilookup n (iset n c l) = Some c.
Proof.
  induction l as [|[m c'] l IH]; cbn; [rewrite Nat.eqb_refl; reflexivity|].
  destruct (Nat.eqb n m) eqn:E; cbn; [rewrite Nat.eqb_refl; reflexivity|rewrite E; exact IH].
Qed.
Lemma ilookup_iset_other n m c l : n <> m -> ilookup n (iset m c l) = ilookup n l.
Proof.
  intros Hne. induction l as [|[m' c'] l IH]; cbn.
  - destruct (Nat.eqb_spec n m); [contradiction|reflexivity].
  - destruct (Nat.eqb_spec m m'); cbn.
    + subst m'. destruct (Nat.eqb_spec n m); [contradiction|reflexivity].
    + destruct (Nat.eqb n m'); [reflexivity|exact IH].
Qed.

Lemma nth_update_same {A} i (x : A) l : (i < List.length l)%nat -> nth_error (update_nth i x l) i = Some x.
Proof.
  revert i; induction l as [|y l IH]; intros [|i] H; cbn in *; try lia; [reflexivity|]. apply IH; lia.
Qed.
Lemma nth_update_other {A} i j (x : A) l : i <> j -> nth_error (update_nth i x l) j = nth_error l j.
Proof.
  revert i j; induction l as [|y l IH]; intros [|i] [|j] H; cbn; try reflexivity; try congruence.
  apply IH; congruence.
Qed.
Lemma update_nth_length {A} i (x : A) l : List.length (update_nth i x l) = List.length l.
Proof. revert i; induction l as [|y l IH]; intros [|i]; cbn; auto. Qed.
Lemma nth_some_lt {A} (l : list A) i x : nth_error l i = Some x -> (i < List.length l)%nat.
Proof. intros H. apply nth_error_Some. congruence. Qed.

Lemma firstn_len_firstn (k : nat) (rest : bytes) : firstn (List.length (firstn k rest)) rest = firstn k rest.
Proof.
  revert rest; induction k as [|k IH]; intros [|x rest]; cbn; try reflexivity. rewrite IH. reflexivity.
Qed.

Lemma prefix_extend (v acc : bytes) k :
  acc = firstn (List.length acc) v ->
  acc ++ firstn k (skipn (List.length acc) v) =
  firstn (List.length (acc ++ firstn k (skipn (List.length acc) v))) v.
Proof.
  intros Ha. set (rest := skipn (List.length acc) v).
  assert (Hv : v = acc ++ rest).
  { unfold rest. rewrite Ha at 1. symmetry. apply firstn_skipn. }
  rewrite Hv at 1. rewrite app_length, firstn_app_2. f_equal. symmetry. apply firstn_len_firstn.
Qed.

Section Atomic.
  Variable V : bytes -> Prop.     (* the values ever passed to Set for this key, and the value present initially *)

  Definition writes (t : tstate) (n : nat) : Prop := match t with TSetW m _ _ => m = n | _ => False end.

  Definition complete (s : sysstate) (ts : list tstate) (n : nat) (v : bytes) : Prop :=
    ilookup n (inodes s) = Some v /\ V v /\ forall j t, nth_error ts j = Some t -> ~ writes t n.

  Definition thread_ok (s : sysstate) (ts : list tstate) (i : nat) (t : tstate) : Prop :=
    match t with
    | TSet0 v => V v
    | TSetW n rest v =>
        V v /\ (exists c, ilookup n (inodes s) = Some c /\ c ++ rest = v) /\
        forall j t', j <> i -> nth_error ts j = Some t' -> ~ writes t' n
    | TSetR n v => complete s ts n v
    | TSetDone _ v => V v
    | TGetR n acc => exists v, complete s ts n v /\ acc = firstn (List.length acc) v
    | TGetDone (Some r) => V r
    | TGetDone None | TGet0 | TDel0 | TDelDone | TDead => True
    end.

  Record Inv (s : sysstate) (ts : list tstate) : Prop := {
    inv_fresh : forall n c, ilookup n (inodes s) = Some c -> (n < next s)%nat;
    inv_threads : forall i t, nth_error ts i = Some t -> thread_ok s ts i t;
    inv_final : forall n, final s = Some n -> exists v, complete s ts n v
  }.

  (* replacing a thread by one that writes nothing keeps every "complete" fact *)
  Lemma complete_update s ts i t' n v :
    complete s ts n v -> ~ writes t' n -> complete s (update_nth i t' ts) n v.
  Proof.
    intros (Hl & Hv & Hw) Hn. split; [exact Hl|]. split; [exact Hv|].
    intros j t Hj. destruct (Nat.eq_dec i j) as [E|E].
    - subst j. assert (Hlt : (i < List.length ts)%nat).
      { apply nth_some_lt in Hj. rewrite update_nth_length in Hj. exact Hj. }
      rewrite nth_update_same in Hj by exact Hlt. inversion Hj; subst. exact Hn.
    - rewrite nth_update_other in Hj by exact E. eapply Hw; exact Hj.
  Qed.

  Lemma complete_inodes s ts n v l :
    complete s ts n v -> ilookup n l = ilookup n (inodes s) -> complete (with_inodes s l) ts n v.
  Proof. intros (Hl & Hv & Hw) E. split; [cbn; rewrite E; exact Hl|]. split; assumption. Qed.

  Definition refs (t : tstate) (m : nat) : Prop :=
    match t with TSetW n _ _ | TSetR n _ | TGetR n _ => n = m | _ => False end.

  Lemma complete_transfer s ts s' i t' n v :
    complete s ts n v ->
    ilookup n (inodes s') = ilookup n (inodes s) -> ~ writes t' n ->
    complete s' (update_nth i t' ts) n v.
  Proof.
    intros (Hl & Hv & Hw) E Hn. split; [rewrite E; exact Hl|]. split; [exact Hv|].
    intros j t Hj. destruct (Nat.eq_dec i j) as [Eij|Eij].
    - subst j. assert (Hlt : (i < List.length ts)%nat).
      { apply nth_some_lt in Hj. rewrite update_nth_length in Hj. exact Hj. }
      rewrite nth_update_same in Hj by exact Hlt. inversion Hj; subst. exact Hn.
    - rewrite nth_update_other in Hj by exact Eij. eapply Hw; exact Hj.
  Qed.

  Lemma thread_ok_transfer s ts s' i t' j tj :
    j <> i -> thread_ok s ts j tj ->
    (forall m, refs tj m -> ilookup m (inodes s') = ilookup m (inodes s) /\ ~ writes t' m) ->
    thread_ok s' (update_nth i t' ts) j tj.
  Proof.
    intros Hji Hok Hr. destruct tj as [v|n rest v|n v|ok v| |n acc|[r|]| | |]; cbn [thread_ok] in *; auto.
    - destruct Hok as (Hv & (c & Hc & Ec) & Hu). destruct (Hr n eq_refl) as [El Hw].
      split; [exact Hv|]. split; [exists c; rewrite El; auto|].
      intros k tk Hk Hnk. destruct (Nat.eq_dec i k) as [E|E].
      + subst k. assert (Hlt : (i < List.length ts)%nat).
        { apply nth_some_lt in Hnk. rewrite update_nth_length in Hnk. exact Hnk. }
        rewrite nth_update_same in Hnk by exact Hlt. inversion Hnk; subst. exact Hw.
      + rewrite nth_update_other in Hnk by exact E. eapply Hu; eauto.
    - destruct (Hr n eq_refl) as [El Hw]. apply (complete_transfer s ts s' i t' n v Hok El Hw).
    - destruct Hok as (v & Hc & Ha). destruct (Hr n eq_refl) as [El Hw].
      exists v. split; [apply (complete_transfer s ts s' i t' n v Hc El Hw)|exact Ha].
  Qed.

  Lemma inv_build s ts s' i t t' :
    Inv s ts -> nth_error ts i = Some t ->
    (forall n c, ilookup n (inodes s') = Some c -> (n < next s')%nat) ->
    thread_ok s' (update_nth i t' ts) i t' ->
    (forall j tj m, j <> i -> nth_error ts j = Some tj -> refs tj m ->
       ilookup m (inodes s') = ilookup m (inodes s) /\ ~ writes t' m) ->
    (forall n, final s' = Some n -> exists v, complete s' (update_nth i t' ts) n v) ->
    Inv s' (update_nth i t' ts).
  Proof.
    intros HI Hi Hf Hnew Hoth Hfin. constructor; [exact Hf| |exact Hfin].
    intros k tk Hk. destruct (Nat.eq_dec k i) as [E|E].
    - subst k. assert (Hlt : (i < List.length ts)%nat) by (eapply nth_some_lt; exact Hi).
      rewrite nth_update_same in Hk by exact Hlt. inversion Hk; subst. exact Hnew.
    - rewrite nth_update_other in Hk by congruence.
      apply (thread_ok_transfer s ts s' i t' k tk E (inv_threads _ _ HI _ _ Hk)).
      intros m Hm. eapply Hoth; eauto.
  Qed.

  (* an inode mentioned by a thread exists, hence is older than [next] *)
  Lemma refs_lt s ts j tj m : Inv s ts -> nth_error ts j = Some tj -> refs tj m -> (m < next s)%nat.
  Proof.
    intros HI Hj Hr. pose proof (inv_threads _ _ HI _ _ Hj) as Hok.
    destruct tj; cbn in Hr; try contradiction; subst; cbn in Hok.
    - destruct Hok as (_ & (c & Hc & _) & _). eapply inv_fresh; eauto.
    - destruct Hok as (Hc & _). eapply inv_fresh; eauto.
    - destruct Hok as (v & (Hc & _) & _). eapply inv_fresh; eauto.
  Qed.

  Definition nonwriter (t : tstate) : Prop := forall n, ~ writes t n.

  (* a step that leaves the inodes alone and whose thread does not become a writer *)
  Lemma inv_quiet s ts i t t' fin :
    Inv s ts -> nth_error ts i = Some t -> nonwriter t' ->
    thread_ok {| final := fin; inodes := inodes s; next := next s |} (update_nth i t' ts) i t' ->
    (forall n, fin = Some n -> exists v, complete s ts n v) ->
    Inv {| final := fin; inodes := inodes s; next := next s |} (update_nth i t' ts).
  Proof.
    intros HI Hi Hnw Hnew Hfin. apply (inv_build s ts _ i t t' HI Hi).
    - cbn. apply (inv_fresh _ _ HI).
    - exact Hnew.
    - intros j tj m _ _ _. split; [reflexivity|apply Hnw].
    - cbn. intros n Hn. destruct (Hfin n Hn) as [v Hc]. exists v.
      apply (complete_transfer s ts _ i t' n v Hc); [reflexivity|apply Hnw].
  Qed.

  Lemma same_state s : {| final := final s; inodes := inodes s; next := next s |} = s.
  Proof. destruct s; reflexivity. Qed.

  Theorem step_preserves s ts i t ch s' t' :
    Inv s ts -> nth_error ts i = Some t -> step s t ch = (s', t') -> Inv s' (update_nth i t' ts).
  Proof.
    intros HI Hi Hs. unfold step in Hs.
    pose proof (inv_threads _ _ HI _ _ Hi) as Hok.
    assert (Hfin0 : forall n, final s = Some n -> exists v, complete s ts n v) by apply (inv_final _ _ HI).
    destruct (ch <? 0) eqn:Ech.
    { (* killed *)
      inversion Hs; subst s'; clear Hs. rewrite <- (same_state s).
      destruct t; subst t'; (apply (inv_quiet s ts i _ _ (final s) HI Hi); [intros m0 Hw; exact Hw| |exact Hfin0]);
        cbn [thread_ok] in *; auto. }
    destruct t as [v|n rest v|n v|ok v| |n acc|r| | |].
    - (* Set: create the temporary file *)
      inversion Hs; subst s' t'; clear Hs. cbn [thread_ok] in Hok.
      apply (inv_build s ts _ i _ _ HI Hi).
      + cbn. intros m c Hm. destruct (Nat.eq_dec m (next s)) as [E|E]; [subst; lia|].
        rewrite ilookup_iset_other in Hm by exact E. pose proof (inv_fresh _ _ HI _ _ Hm). lia.
      + cbn [thread_ok]. split; [exact Hok|]. split; [exists []; cbn; rewrite ilookup_iset_same; auto|].
        intros j tj Hji Hj Hw. rewrite nth_update_other in Hj by congruence.
        destruct tj; cbn in Hw; try contradiction. subst.
        pose proof (refs_lt s ts j _ (next s) HI Hj eq_refl). lia.
      + intros j tj m Hji Hj Hr. pose proof (refs_lt s ts j tj m HI Hj Hr) as Hlt. cbn. split.
        * apply ilookup_iset_other. lia.
        * intros Hw. cbn in Hw. lia.
      + cbn. intros n Hn. destruct (Hfin0 n Hn) as [v0 Hc]. exists v0.
        assert (n < next s)%nat by (destruct Hc as (Hl & _); eapply inv_fresh; eauto).
        apply (complete_transfer s ts _ i _ n v0 Hc); [cbn; apply ilookup_iset_other; lia|cbn; lia].
    - (* Set: writing *)
      cbn [thread_ok] in Hok. destruct Hok as (Hv & (c & Hc & Ec) & Hu).
      destruct rest as [|b rest].
      + (* everything written: fsync, close *)
        inversion Hs; subst s' t'; clear Hs. rewrite <- (same_state s).
        apply (inv_quiet s ts i _ _ (final s) HI Hi); [intros m Hw; exact Hw| |exact Hfin0].
        cbn [thread_ok]. rewrite app_nil_r in Ec. subst c. split; [exact Hc|]. split; [exact Hv|].
        intros j tj Hj. destruct (Nat.eq_dec j i) as [E|E].
        * subst j. assert (Hlt : (i < List.length ts)%nat) by (eapply nth_some_lt; exact Hi).
          rewrite nth_update_same in Hj by exact Hlt. inversion Hj; subst. intros Hw; exact Hw.
        * rewrite nth_update_other in Hj by congruence. eapply Hu; eauto.
      + destruct (ch =? 0) eqn:E0.
        * (* the write fails *)
          inversion Hs; subst s' t'; clear Hs. rewrite <- (same_state s).
          apply (inv_quiet s ts i _ _ (final s) HI Hi); [intros m Hw; exact Hw|exact Hv|exact Hfin0].
        * (* a (possibly short) write *)
          inversion Hs; subst s' t'; clear Hs. rewrite Hc.
          set (k := Z.to_nat ch).
          assert (Hother : forall j tj m, j <> i -> nth_error ts j = Some tj -> refs tj m -> m <> n).
          { intros j tj m Hji Hj Hr Hmn. subst m.
            pose proof (inv_threads _ _ HI _ _ Hj) as Hokj.
            destruct tj; cbn in Hr; try contradiction; subst; cbn in Hokj.
            - eapply Hu; [exact Hji|exact Hj|reflexivity].
            - destruct Hokj as (_ & _ & Hw). eapply (Hw i); [exact Hi|reflexivity].
            - destruct Hokj as (v1 & (_ & _ & Hw) & _). eapply (Hw i); [exact Hi|reflexivity]. }
          apply (inv_build s ts _ i _ _ HI Hi).
          -- cbn. intros m c0 Hm. destruct (Nat.eq_dec m n) as [E|E].
             ++ subst. eapply inv_fresh; eauto.
             ++ rewrite ilookup_iset_other in Hm by exact E. eapply inv_fresh; eauto.
          -- cbn [thread_ok]. split; [exact Hv|]. split.
             ++ exists (c ++ firstn k (b :: rest)). cbn [inodes with_inodes]. rewrite ilookup_iset_same. split; [reflexivity|].
                rewrite <- app_assoc, firstn_skipn. exact Ec.
             ++ intros j tj Hji Hj. rewrite nth_update_other in Hj by congruence. eapply Hu; eauto.
          -- intros j tj m Hji Hj Hr. pose proof (Hother j tj m Hji Hj Hr) as Hne. cbn. split.
             ++ apply ilookup_iset_other. exact Hne.
             ++ intros Hw. cbn in Hw. congruence.
          -- cbn. intros m Hm. destruct (Hfin0 m Hm) as [v0 Hcm]. exists v0.
             assert (m <> n). { intros E. subst m. destruct Hcm as (_ & _ & Hw). eapply (Hw i); [exact Hi|reflexivity]. }
             apply (complete_transfer s ts _ i _ m v0 Hcm); [cbn; apply ilookup_iset_other; exact H|cbn; congruence].
    - (* Set: rename the temporary onto the name *)
      inversion Hs; subst s' t'; clear Hs. cbn [thread_ok] in Hok.
      apply (inv_quiet s ts i _ _ (Some n) HI Hi); [intros m Hw; exact Hw|destruct Hok as (_ & Hv & _); exact Hv|].
      intros m Hm. inversion Hm; subst m. exists v. exact Hok.
    - inversion Hs; subst s' t'; clear Hs. rewrite <- (same_state s).
      apply (inv_quiet s ts i _ _ (final s) HI Hi); [intros m Hw; exact Hw|exact Hok|exact Hfin0].
    - (* Get: open *)
      destruct (final s) as [n|] eqn:Ef; rewrite <- Ef in Hfin0; inversion Hs; subst s' t'; clear Hs; rewrite <- (same_state s).
      + apply (inv_quiet s ts i _ _ (final s) HI Hi); [intros m Hw; exact Hw| |exact Hfin0].
        cbn [thread_ok]. destruct (Hfin0 n Ef) as [v Hc]. exists v. split; [|reflexivity].
        apply (complete_transfer s ts _ i _ n v Hc); [reflexivity|intros Hw; exact Hw].
      + apply (inv_quiet s ts i _ _ (final s) HI Hi); [intros m Hw; exact Hw|exact I|exact Hfin0].
    - (* Get: read *)
      cbn [thread_ok] in Hok. destruct Hok as (v & Hc & Ha).
      destruct Hc as (Hl & Hv & Hw0). rewrite Hl in Hs.
      destruct (firstn (Z.to_nat (Z.max ch 1)) (skipn (List.length acc) v)) as [|x chunk] eqn:Echunk;
        inversion Hs; subst s' t'; clear Hs; rewrite <- (same_state s).
      + (* end of file: everything was read *)
        apply (inv_quiet s ts i _ _ (final s) HI Hi); [intros m Hw; exact Hw| |exact Hfin0].
        cbn [thread_ok].
        assert (Hsk : skipn (List.length acc) v = []).
        { destruct (skipn (List.length acc) v) as [|y r] eqn:E; [reflexivity|].
          assert (0 < Z.to_nat (Z.max ch 1))%nat by lia.
          destruct (Z.to_nat (Z.max ch 1)); [lia|cbn in Echunk; discriminate]. }
        assert (acc = v).
        { rewrite <- (firstn_skipn (List.length acc) v), Hsk, app_nil_r. exact Ha. }
        subst acc. exact Hv.
      + apply (inv_quiet s ts i _ _ (final s) HI Hi); [intros m Hw; exact Hw| |exact Hfin0].
        cbn [thread_ok]. exists v. split.
        * apply (complete_transfer s ts _ i _ n v (conj Hl (conj Hv Hw0))); [reflexivity|intros Hw; exact Hw].
        * rewrite <- Echunk. apply prefix_extend. exact Ha.
    - inversion Hs; subst s' t'; clear Hs. rewrite <- (same_state s).
      apply (inv_quiet s ts i _ _ (final s) HI Hi); [intros m Hw; exact Hw|exact Hok|exact Hfin0].
    - (* Delete *)
      inversion Hs; subst s' t'; clear Hs.
      apply (inv_quiet s ts i _ _ None HI Hi); [intros m Hw; exact Hw|exact I|intros m Hm; discriminate].
    - inversion Hs; subst s' t'; clear Hs. rewrite <- (same_state s).
      apply (inv_quiet s ts i _ _ (final s) HI Hi); [intros m Hw; exact Hw|exact I|exact Hfin0].
    - inversion Hs; subst s' t'; clear Hs. rewrite <- (same_state s).
      apply (inv_quiet s ts i _ _ (final s) HI Hi); [intros m Hw; exact Hw|exact I|exact Hfin0].
  Qed.
End Atomic.

Lemma run_sched_inv V sched : forall s ts, Inv V s ts ->
  let '(s', ts') := run_sched s ts sched in Inv V s' ts'.
Proof.
  induction sched as [|[i ch] sched IH]; intros s ts HI; cbn [run_sched]; [exact HI|].
  destruct (nth_error ts i) as [t|] eqn:E; [|apply IH; exact HI].
  destruct (step s t ch) as [s' t'] eqn:Es.
  apply IH. eapply step_preserves; eauto.
Qed.
