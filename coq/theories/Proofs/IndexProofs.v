(* IndexProofs.v — the index written by StoreResponse / SetRefs: one reference per response id,
   no id lost (C08 frame, C19). *)
From HC Require Import Transport.
From HC.Proofs Require Import HeaderProofs.
Open Scope Z_scope.

Definition some_ids (l : list (option ref)) : list bytes :=
  flat_map (fun x => match x with Some r => [r_id r] | None => [] end) l.

Lemma in_names_In x l : in_names x l = true <-> In x l.
Proof.
  unfold in_names; rewrite existsb_exists; split.
  - intros (y & Hy & Hb). apply beq_eq in Hb; subst; exact Hy.
  - intros H; exists x; split; [exact H|apply beq_refl].
Qed.

Lemma in_names_false x l : in_names x l = false <-> ~ In x l.
Proof. rewrite <- in_names_In. destruct (in_names x l); split; congruence. Qed.

(* unique_refs_rev keeps the first occurrence of every id not already seen *)
Lemma unique_rev_ids l : forall seen id,
  In id (some_ids (unique_refs_rev l seen)) <-> (In id (some_ids l) /\ ~ In id seen).
Proof.
  induction l as [|[r|] l IH]; intros seen id; cbn.
  - tauto.
  - destruct (in_names (r_id r) seen) eqn:E.
    + rewrite IH. apply in_names_In in E. split; [intros [H1 H2]; auto|].
      intros [[H|H] Hn]; [subst; contradiction|auto].
    + cbn. rewrite IH. apply in_names_false in E. cbn. split.
      * intros [H|[H1 H2]]; [subst; auto|]. split; [auto|]. intros Hc; apply H2; right; exact Hc.
      * intros [[H|H] Hn]; [left; exact H|].
        destruct (beq id (r_id r)) eqn:Eb; [apply beq_eq in Eb; left; symmetry; exact Eb|].
        right. split; [exact H|]. intros [Hc|Hc]; [subst; rewrite beq_refl in Eb; discriminate|contradiction].
  - apply IH.
Qed.

Lemma unique_rev_nodup l : forall seen, NoDup (some_ids (unique_refs_rev l seen)).
Proof.
  induction l as [|[r|] l IH]; intros seen; cbn; [constructor| |apply IH].
  destruct (in_names (r_id r) seen) eqn:E; [apply IH|].
  cbn. constructor; [|apply IH].
  rewrite unique_rev_ids. intros [_ Hn]. apply Hn. left; reflexivity.
Qed.

Lemma some_ids_app a b : some_ids (a ++ b) = some_ids a ++ some_ids b.
Proof. unfold some_ids. apply flat_map_app. Qed.

Lemma some_ids_rev l : some_ids (rev l) = rev (some_ids l).
Proof.
  induction l as [|[r|] l IH]; cbn; [reflexivity| |].
  - rewrite some_ids_app, IH. reflexivity.
  - rewrite some_ids_app, IH. cbn. rewrite app_nil_r. reflexivity.
Qed.

(* C19: the index that is written has no two references to the same response *)
Theorem unique_refs_nodup l : NoDup (some_ids (unique_refs l)).
Proof.
  unfold unique_refs. rewrite some_ids_rev. apply NoDup_rev. apply unique_rev_nodup.
Qed.

(* C08 frame: no response id disappears from the index by de-duplication *)
Theorem unique_refs_ids l id : In id (some_ids (unique_refs l)) <-> In id (some_ids l).
Proof.
  unfold unique_refs. rewrite some_ids_rev. rewrite <- in_rev. rewrite unique_rev_ids.
  rewrite some_ids_rev. rewrite <- in_rev. split; [intros [H _]; exact H|intros H; split; [exact H|intros []]].
Qed.

(* replacing one position keeps every other reference *)
Lemma replace_nth_other {A} (l : list A) n x j :
  j <> n -> nth_error (replace_nth n x l) j = nth_error l j.
Proof.
  revert n j; induction l as [|y l IH]; intros [|n] [|j] H; cbn; auto; try congruence.
Qed.

Lemma replace_nth_same {A} (l : list A) n x :
  (n < List.length l)%nat -> nth_error (replace_nth n x l) n = Some x.
Proof.
  revert n; induction l as [|y l IH]; intros [|n] H; cbn in *; auto; try lia.
  all: try (apply IH; lia).
Qed.

(* the variant key is never the URL key itself: index and entries live under different keys *)
Lemma app_nonempty_neq (k s : bytes) : s <> [] -> beq (k ++ s) k = false.
Proof.
  intros Hs. destruct (beq (k ++ s) k) eqn:E; [|reflexivity].
  apply beq_eq in E. assert (List.length (k ++ s) = List.length k) by congruence.
  rewrite app_length in H. destruct s; [congruence|]. cbn in H. lia.
Qed.

Lemma vary_key_neq k m : beq (make_vary_key k m) k = false.
Proof.
  unfold make_vary_key. destruct m; apply app_nonempty_neq; [discriminate|].
  intros H. destruct (dec_of_nonneg _); discriminate.
Qed.
