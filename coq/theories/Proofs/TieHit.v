(* TieHit.v — the decision taken on a cache hit: the hand-written [decide_hit] (Transport.v) is the function the
   translator derives from handleCacheHit in /repo's roundtripper.go on this run (Generated/SrcHit.v): the same
   tests, in the same order, leading to the same four ways of answering. *)
From HC Require Import Transport.
From HC.Generated Require Import SrcHit.
Open Scope Z_scope.

Lemma tie_decide_hit q stored now : src_decide_hit q stored now = decide_hit q stored now.
Proof.
  unfold src_decide_hit, decide_hit, hit_must_validate, dur_add. cbv zeta.
  set (f := calculate_freshness stored (parse_cc (q_hdr q)) (parse_cc (e_hdr stored)) now).
  destruct (resp_no_cache (parse_cc (e_hdr stored))), (hit_qualified stored), (f_stale f), (f_expired f),
    (resp_must_revalidate (parse_cc (e_hdr stored))), (req_no_cache (parse_cc (q_hdr q))), (f_req_max_age_exceeded f),
    (req_only_if_cached (parse_cc (q_hdr q))); cbn [andb orb negb]; try reflexivity;
    destruct (resp_swr (parse_cc (e_hdr stored))); try reflexivity;
    match goal with |- (if ?c then _ else _) = _ => destruct c end; reflexivity.
Qed.
