(* ValidationProofs.v — HandleValidationResponse: when the stored response may come back. *)
From HC Require Import Transport Spec.
From HC.Proofs Require Import Paths ErrOnly.
Open Scope Z_scope.

Definition origin_answer (r : response) (out : outcome) : Prop :=
  (exists r', out = OResp r' /\ p_status r' = p_status r /\ p_body r' = p_body r) \/ p_body_ok r = false.

Lemma del_all_leaves {A} P ks done (c : list bytes -> prog A) :
  (forall d, Leaves P (c d)) -> Leaves P (del_all ks done c).
Proof.
  revert done; induction ks as [|k ks IH]; intros done Hc; cbn; auto.
  destruct (existsb _ _); auto. constructor; auto.
Qed.

Lemma invalidate_locations_leaves {A} P u h hs done (c : list bytes -> prog A) :
  (forall d, Leaves P (c d)) -> Leaves P (invalidate_locations hs u h done c).
Proof.
  revert done; induction hs as [|hn hs IH]; intros done Hc; cbn [invalidate_locations]; auto.
  destruct (hget hn h); [apply IH, Hc|].
  destruct (parse_url _); [|constructor].
  destruct (same_origin _ _); [|apply IH, Hc].
  unfold get_refs_clean; constructor; intros ans. destruct (ref_ids _); [|constructor].
  apply del_all_leaves; intros d'; apply IH, Hc.
Qed.

Lemma invalidate_cache_leaves {A} P u h refs key (c : prog A) :
  Leaves P c -> Leaves P (invalidate_cache u h refs key c).
Proof.
  intros Hc; unfold invalidate_cache. destruct (ref_ids _); [|constructor].
  apply del_all_leaves; intros d. apply invalidate_locations_leaves; intros d'.
  apply del_all_leaves; auto.
Qed.

(* the part of the handler after the 304 and stale-if-error tests: the origin's own answer *)
Lemma after_sie_leaves ctx q r :
  Leaves (origin_answer r)
    (let cc_resp := parse_cc (p_hdr r) in
     if can_store_response r (rc_cc_req ctx) cc_resp
     then r1 <- store_response q r (rc_url_key ctx) (rc_refs ctx) (rc_start ctx) (rc_end ctx) (rc_ref_index ctx);;
          Ret (OResp (with_hdr r1 (apply_status MISS (p_hdr r1))))
     else if is_unsafe_method (q_method q) && is_non_error_status (p_status r)
          then invalidate_cache (q_url q) (p_hdr r) (rc_refs ctx) (rc_url_key ctx)
                 (Ret (OResp (with_hdr r (apply_status BYPASS (p_hdr r)))))
          else Ret (OResp (with_hdr r (apply_status BYPASS (p_hdr r))))).
Proof.
  cbv zeta. destruct (can_store_response _ _ _).
  - unfold store_response. destruct (normalize_vary _ _); [|constructor].
    destruct (p_body_ok (with_hdr r _)) eqn:Eb; cbn [bind].
    + apply LV_SetEntry, LV_SetRefs, LV_Ret. left; eexists; split; [reflexivity|]; cbn; auto.
    + apply LV_SetRefs, LV_Ret. cbn in Eb. right; exact Eb.
  - destruct (is_unsafe_method (q_method q) && is_non_error_status (p_status r)).
    + apply invalidate_cache_leaves. constructor. left; eexists; split; [reflexivity|]; cbn; auto.
    + constructor. left; eexists; split; [reflexivity|]; cbn; auto.
Qed.

(* the stored response is handed back only after a 304, or when the fallback is permitted and the
   failure is an eligible one (transport error, 500, 502, 503, 504) *)
Theorem hvr_origin_answer ctx q r :
  (is_get (q_method q) && (p_status r =? 304)) = false ->
  rc_no_stale ctx = true \/ is_stale_error_allowed (p_status r) = false ->
  Leaves (origin_answer r) (handle_validation_response ctx q (RResp r)).
Proof.
  intros H304 Hn. unfold handle_validation_response. rewrite H304.
  assert (Hc : negb (rc_no_stale ctx) && (is_stale_error_allowed (p_status r) && is_get (q_method q)) = false).
  { destruct Hn as [Hn|Hn]; rewrite Hn; [reflexivity|]. cbn. apply Bool.andb_false_r. }
  rewrite Hc. apply after_sie_leaves.
Qed.

Theorem hvr_error_no_fallback ctx q :
  rc_no_stale ctx = true -> handle_validation_response ctx q RErr = Ret OErr.
Proof. intros H; unfold handle_validation_response; rewrite H; reflexivity. Qed.

(* shape of the handler on an eligible failure when the fallback is permitted *)
Theorem hvr_sie_shape ctx q rep :
  rc_no_stale ctx = false -> is_get (q_method q) = true ->
  match rep with RErr => True | RResp r => is_stale_error_allowed (p_status r) = true /\ (p_status r =? 304) = false end ->
  exists after,
    handle_validation_response ctx q rep =
    Now (fun now =>
      if can_stale_on_error (rc_fresh ctx)
           [resp_stale_if_error (parse_cc (e_hdr (rc_stored ctx))); req_stale_if_error (rc_cc_req ctx)] now
      then Ret (OResp (response_of (entry_with_hdr (rc_stored ctx)
             (apply_status STALE (hset (bs "Age") (age_header_value (rc_fresh ctx) now)
                (strip_qualified (match resp_no_cache (parse_cc (e_hdr (rc_stored ctx))) with Some raw => no_cache_fields raw | None => None end)
                   (e_hdr (rc_stored ctx))))))))
      else after)
    /\ match rep with RErr => after = Ret OErr | RResp r => Leaves (origin_answer r) after end.
Proof.
  intros Hns Hg Hrep. unfold handle_validation_response. rewrite Hns, Hg. cbn [negb andb].
  destruct rep as [|r].
  - eexists; split; reflexivity.
  - destruct Hrep as [Ha H3]. rewrite Ha, H3. cbn [andb].
    eexists; split; [reflexivity|]. apply after_sie_leaves.
Qed.

(* ---------- origin requests of the validation response handler ---------- *)
Lemma OriginReqs_weaken {A} (R R' : request -> Prop) (p : prog A) :
  (forall r, R r -> R' r) -> OriginReqs R p -> OriginReqs R' p.
Proof. intros H Hp; induction Hp; constructor; auto. Qed.

Lemma no_origin_reqs {A} R (p : prog A) : NoOrigin p -> OriginReqs R p.
Proof. intros H; induction H; constructor; auto. Qed.

Lemma hvr_reqs R ctx q rep : OriginReqs R (handle_validation_response ctx q rep).
Proof.
  unfold handle_validation_response.
  assert (Hs : forall r0 refs, OriginReqs R (store_response q r0 (rc_url_key ctx) refs (rc_start ctx) (rc_end ctx) (rc_ref_index ctx))).
  { intros; apply no_origin_reqs, ErrOnly.store_response_noorigin. }
  assert (Hd : forall ks done (c : list bytes -> prog outcome),
             (forall d, OriginReqs R (c d)) -> OriginReqs R (del_all ks done c)).
  { induction ks as [|k ks IH]; intros done c Hc; cbn; auto. destruct (existsb _ _); auto. constructor; auto. }
  assert (Hl : forall u h hs done (c : list bytes -> prog outcome),
             (forall d, OriginReqs R (c d)) -> OriginReqs R (invalidate_locations hs u h done c)).
  { intros u h; induction hs as [|hn hs IH]; intros done c Hc; cbn [invalidate_locations]; auto.
    destruct (hget hn h); [apply IH, Hc|]. destruct (parse_url _); [|constructor].
    destruct (same_origin _ _); [|apply IH, Hc].
    unfold get_refs_clean; constructor; intros ans. destruct (ref_ids _); [|constructor].
    apply Hd; intros d'; apply IH, Hc. }
  assert (Hi : forall u h refs key (c : prog outcome), OriginReqs R c -> OriginReqs R (invalidate_cache u h refs key c)).
  { intros; unfold invalidate_cache. destruct (ref_ids _); [|constructor].
    apply Hd; intros d; apply Hl; intros d'; apply Hd; auto. }
  destruct rep as [|r].
  - cbn [andb]. match goal with |- OriginReqs _ (if ?c then _ else _) => destruct c end; [|constructor].
    constructor; intros now; destruct (can_stale_on_error _ _ _); constructor.
  - destruct (is_get (q_method q) && (p_status r =? 304)).
    + destruct (_ || _); [constructor|]. apply OriginReqs_bind; [apply Hs|intros; constructor].
    + assert (Hafter : OriginReqs R
        (let cc_resp := parse_cc (p_hdr r) in
         if can_store_response r (rc_cc_req ctx) cc_resp
         then r1 <- store_response q r (rc_url_key ctx) (rc_refs ctx) (rc_start ctx) (rc_end ctx) (rc_ref_index ctx);;
              Ret (OResp (with_hdr r1 (apply_status MISS (p_hdr r1))))
         else if is_unsafe_method (q_method q) && is_non_error_status (p_status r)
              then invalidate_cache (q_url q) (p_hdr r) (rc_refs ctx) (rc_url_key ctx)
                     (Ret (OResp (with_hdr r (apply_status BYPASS (p_hdr r)))))
              else Ret (OResp (with_hdr r (apply_status BYPASS (p_hdr r)))))).
      { cbv zeta. destruct (can_store_response _ _ _).
        - apply OriginReqs_bind; [apply Hs|intros; constructor].
        - destruct (_ && _); [apply Hi|]; constructor. }
      match goal with |- OriginReqs _ (if ?c then _ else _) => destruct c end; [|exact Hafter].
      constructor; intros now; destruct (can_stale_on_error _ _ _); [constructor|exact Hafter].
Qed.


Lemma reqs_none_noorigin {A} (R : request -> Prop) (p : prog A) :
  (forall r, ~ R r) -> OriginReqs R p -> NoOrigin p.
Proof.
  intros HR H; induction H.
  - apply NO_Ret.
  - apply NO_GetRefs; auto.
  - apply NO_GetEntry; auto.
  - apply NO_SetEntry; auto.
  - apply NO_SetRefs; auto.
  - apply NO_Del; auto.
  - exfalso. eapply HR; eassumption.
  - apply NO_Now; auto.
  - apply NO_Spawn; auto.
  - apply NO_Crash.
  - apply NO_Unmodelled.
Qed.
Lemma reqs_false_noorigin {A} (p : prog A) : OriginReqs (fun _ => False) p -> NoOrigin p.
Proof. apply reqs_none_noorigin. intros r H; exact H. Qed.

Lemma hvr_noorigin ctx q rep : NoOrigin (handle_validation_response ctx q rep).
Proof. apply reqs_false_noorigin, hvr_reqs. Qed.
