(* TieHelpers.v — small helpers of the model are the ones the translator derives from /repo on this run
   (Generated/SrcHelpers.v: saturatingAdd, defaultPort; Generated/SrcOrigin.v: sameOrigin). *)
From HC Require Import Transport.
From HC.Generated Require Import SrcHelpers SrcOrigin.
From Coq Require Import Lia.
Open Scope Z_scope.

Lemma wrap64_small' x : 0 <= x <= max64 -> wrap64 x = x.
Proof.
  unfold wrap64, two63, two64, max64. intros H.
  rewrite Z.mod_small by lia. lia.
Qed.

(* saturatingAdd, on the non-negative durations it is documented for (Go's subtraction and addition wrap; inside this
   range they do not) *)
Lemma tie_saturating_add a b : 0 <= a <= max64 -> 0 <= b <= max64 -> src_saturating_add a b = go_sat_add a b.
Proof.
  intros Ha Hb. unfold src_saturating_add, go_sat_add.
  change 9223372036854775807 with max64.
  rewrite (wrap64_small' (max64 - b)) by (unfold max64 in *; lia).
  destruct (max64 - b <? a) eqn:E; [reflexivity|].
  apply Z.ltb_ge in E. apply wrap64_small'. unfold max64 in *. lia.
Qed.

Lemma tie_default_port s : src_default_port s = default_port s.
Proof. reflexivity. Qed.

Lemma tie_same_origin a b : src_same_origin a b = same_origin a b.
Proof.
  unfold src_same_origin, same_origin.
  destruct (split_host_port (u_host a)) as [ha pa]. destruct (split_host_port (u_host b)) as [hb pb]. cbn [fst snd].
  destruct pa, pb; reflexivity.
Qed.
