(* ConcProofs.v — under every interleaving each thread walks a path of its own effect tree, so whatever
   holds on all paths of the sequential trees (for every store answer) holds for concurrent calls; the
   keys written stay within those of the requests issued (C16). *)
From HC Require Import Conc.
From HC.Proofs Require Import Paths HeaderProofs.
Open Scope Z_scope.

(* p is what remains of p0 after some answers *)
Inductive Sub {A : Type} : prog A -> prog A -> Prop :=
| SU_refl p : Sub p p
| SU_GetRefs k c x p : Sub (c x) p -> Sub (GetRefs k c) p
| SU_GetEntry k c x p : Sub (c x) p -> Sub (GetEntry k c) p
| SU_SetEntry k e c p : Sub c p -> Sub (SetEntry k e c) p
| SU_SetRefs k l c p : Sub c p -> Sub (SetRefs k l c) p
| SU_Del k c p : Sub c p -> Sub (Del k c) p
| SU_Origin r c x p : Sub (c x) p -> Sub (Origin r c) p
| SU_Now c t p : Sub (c t) p -> Sub (Now c) p
| SU_Spawn b c p : Sub c p -> Sub (Spawn b c) p.

(* b is spawned somewhere below p0 *)
Inductive SpawnedBy {A : Type} : prog A -> prog unit -> Prop :=
| SB_here b c : SpawnedBy (Spawn b c) b
| SB_GetRefs k c x b : SpawnedBy (c x) b -> SpawnedBy (GetRefs k c) b
| SB_GetEntry k c x b : SpawnedBy (c x) b -> SpawnedBy (GetEntry k c) b
| SB_SetEntry k e c b : SpawnedBy c b -> SpawnedBy (SetEntry k e c) b
| SB_SetRefs k l c b : SpawnedBy c b -> SpawnedBy (SetRefs k l c) b
| SB_Del k c b : SpawnedBy c b -> SpawnedBy (Del k c) b
| SB_Origin r c x b : SpawnedBy (c x) b -> SpawnedBy (Origin r c) b
| SB_Now c t b : SpawnedBy (c t) b -> SpawnedBy (Now c) b
| SB_Spawn_k b0 c b : SpawnedBy c b -> SpawnedBy (Spawn b0 c) b
| SB_nested b0 c b : @SpawnedBy unit b0 b -> SpawnedBy (Spawn b0 c) b.

Lemma Sub_trans {A} (p q r : prog A) : Sub p q -> Sub q r -> Sub p r.
Proof. intros H; induction H; intros H2; try (econstructor; eauto; fail). exact H2. Qed.

Lemma Sub_SpawnedBy {A} (p q : prog A) b : Sub p q -> SpawnedBy q b -> SpawnedBy p b.
Proof. intros H; induction H; intros H2; try (econstructor; eauto; fail). exact H2. Qed.

(* ---------- transfer of the path predicates ---------- *)
Lemma Leaves_Sub {A} (P : A -> Prop) (p q : prog A) : Leaves P p -> Sub p q -> Leaves P q.
Proof. intros HL HS; induction HS; auto; inversion HL; subst; auto. Qed.

Lemma NoCrash_Sub {A} (p q : prog A) : NoCrash p -> Sub p q -> NoCrash q.
Proof. intros HL HS; induction HS; auto; inversion HL; subst; auto. Qed.
Lemma NoCrash_SpawnedBy {A} (p : prog A) b : NoCrash p -> SpawnedBy p b -> NoCrash b.
Proof. intros HL HS; induction HS; inversion HL; subst; auto. Qed.

Lemma OriginReqs_Sub {A} R (p q : prog A) : OriginReqs R p -> Sub p q -> OriginReqs R q.
Proof. intros HL HS; induction HS; auto; inversion HL; subst; auto. Qed.
Lemma OriginReqs_SpawnedBy {A} R (p : prog A) b : OriginReqs R p -> SpawnedBy p b -> OriginReqs R b.
Proof. intros HL HS; induction HS; inversion HL; subst; auto. Qed.

(* the analogue of WritesTo (Props/C19.v) used here: every write goes to a key satisfying P *)
Inductive Writes (P : bytes -> Prop) {A : Type} : prog A -> Prop :=
| WR_Ret a : Writes P (Ret a)
| WR_GetRefs k c : (forall x, Writes P (c x)) -> Writes P (GetRefs k c)
| WR_GetEntry k c : (forall x, Writes P (c x)) -> Writes P (GetEntry k c)
| WR_SetEntry k e c : P k -> Writes P c -> Writes P (SetEntry k e c)
| WR_SetRefs k l c : P k -> Writes P c -> Writes P (SetRefs k l c)
| WR_Del k c : Writes P c -> Writes P (Del k c)
| WR_Origin r c : (forall x, Writes P (c x)) -> Writes P (Origin r c)
| WR_Now c : (forall t, Writes P (c t)) -> Writes P (Now c)
| WR_Spawn p c : Writes P p -> Writes P c -> Writes P (Spawn p c)
| WR_Crash : Writes P Crash
| WR_Unmodelled : Writes P Unmodelled.

Lemma Writes_Sub {A} P (p q : prog A) : Writes P p -> Sub p q -> Writes P q.
Proof. intros HL HS; induction HS; auto; inversion HL; subst; auto. Qed.
Lemma Writes_SpawnedBy {A} P (p : prog A) b : Writes P p -> SpawnedBy p b -> Writes P b.
Proof. intros HL HS; induction HS; inversion HL; subst; auto. Qed.
Lemma Writes_weaken {A} (P Q : bytes -> Prop) (p : prog A) : (forall k, P k -> Q k) -> Writes P p -> Writes Q p.
Proof. intros HPQ Hp; induction Hp; constructor; auto. Qed.

(* ---------- one step ---------- *)
Lemma settle_sub {A} (p : prog A) : forall clock sp p' sp',
  settle p clock sp = (p', sp') ->
  Sub p p' /\ exists more, sp' = sp ++ more /\ Forall (fun b => SpawnedBy p b) more.
Proof.
  induction p as [A0 a|A0 k c IH|A0 k c IH|A0 k e c IH|A0 k l c IH|A0 k c IH|A0 r c IH|A0 c IH|A0 b IHb c IHc|A0|A0]; intros clock sp p' sp' H; cbn [settle] in H;
    try (injection H as <- <-; split; [apply SU_refl|exists []; rewrite app_nil_r; split; [reflexivity|constructor]]).
  - destruct (IH _ _ _ _ _ H) as [HS (more & -> & HF)]. split; [eapply SU_Now; exact HS|].
    exists more. split; [reflexivity|]. eapply Forall_impl; [|exact HF]. intros b Hb. eapply SB_Now; exact Hb.
  - destruct (IHc _ _ _ _ H) as [HS (more & -> & HF)]. split; [apply SU_Spawn; exact HS|].
    exists (b :: more). split; [rewrite <- app_assoc; reflexivity|]. constructor; [apply SB_here|].
    eapply Forall_impl; [|exact HF]. intros b' Hb. apply SB_Spawn_k; exact Hb.
Qed.

Lemma perform_sub {A} limit (p : prog A) w p1 w1 : perform limit p w = (p1, w1) -> Sub p p1.
Proof.
  destruct p; cbn [perform]; intros H; try (injection H as <- <-; try apply SU_refl; econstructor; apply SU_refl).
  destruct (do_origin limit r w) as [rep w'] eqn:E. injection H as <- <-. eapply SU_Origin. apply SU_refl.
Qed.

(* keys of the store *)
Definition keys_ok (P : bytes -> Prop) (s : store) : Prop := forall k, amem k s = true -> P k.

Lemma amem_aset {V} k k' (v : V) s : amem k (aset k' v s) = true -> k = k' \/ amem k s = true.
Proof.
  unfold amem. destruct (beq k k') eqn:E.
  - apply beq_eq in E. auto.
  - rewrite alookup_aset_other by exact E. auto.
Qed.
Lemma amem_aremove {V} k k' (s : list (bytes * V)) : amem k (aremove k' s) = true -> amem k s = true.
Proof.
  unfold amem. destruct (beq k k') eqn:E.
  - apply beq_eq in E. subst. rewrite alookup_aremove_same. discriminate.
  - rewrite alookup_aremove_other by exact E. auto.
Qed.

Lemma do_origin_store limit q w : w_store (snd (do_origin limit q w)) = w_store w.
Proof.
  unfold do_origin. destruct (w_script w) as [|[[d r] rc] t]; destruct limit as [T|]; cbn;
    try destruct (T <? _); reflexivity.
Qed.

Lemma perform_keys {A} P limit (p : prog A) w p1 w1 :
  Writes P p -> keys_ok P (w_store w) -> perform limit p w = (p1, w1) -> keys_ok P (w_store w1).
Proof.
  intros HW HK H. destruct p; cbn [perform] in H; try (injection H as <- <-; exact HK).
  - injection H as <- <-. cbn. inversion HW; subst. intros k' Hk. apply amem_aset in Hk as [->|Hk]; auto.
  - injection H as <- <-. cbn. inversion HW; subst. intros k' Hk. apply amem_aset in Hk as [->|Hk]; auto.
  - injection H as <- <-. cbn. intros k' Hk. apply amem_aremove in Hk. auto.
  - pose proof (do_origin_store limit r w) as E. destruct (do_origin limit r w) as [rep w']. injection H as <- <-. cbn in E. rewrite E. exact HK.
Qed.

Lemma SpawnedBy_trans : forall A (p : prog A) b b2, SpawnedBy p b -> SpawnedBy b b2 -> SpawnedBy p b2.
Proof.
  intros A p b b2 H. induction H; intros H2; try (econstructor; eauto; fail).
Qed.

(* ---------- list plumbing ---------- *)
Lemma Forall2_nth {X Y} (R : X -> Y -> Prop) l1 l2 i y :
  Forall2 R l1 l2 -> nth_error l2 i = Some y -> exists x, nth_error l1 i = Some x /\ R x y.
Proof.
  intros H; revert i; induction H as [|a b l1 l2 Hab _ IH]; intros [|i] Hi; cbn in *; try discriminate.
  - injection Hi as <-. eauto.
  - apply IH, Hi.
Qed.
Lemma Forall2_replace {X Y} (R : X -> Y -> Prop) l1 l2 i x y :
  Forall2 R l1 l2 -> nth_error l1 i = Some x -> R x y -> Forall2 R l1 (replace_nth i y l2).
Proof.
  intros H; revert i; induction H as [|a b l1 l2 Hab Hr IH]; intros [|i] Hi Hxy; cbn in *; try discriminate.
  - injection Hi as ->. constructor; assumption.
  - constructor; [assumption|]. apply IH; assumption.
Qed.
Lemma Forall_replace {X} (Q : X -> Prop) l i y : Forall Q l -> Q y -> Forall Q (replace_nth i y l).
Proof.
  intros H; revert i; induction H as [|a l Ha Hl IH]; intros [|i] Hy; cbn; constructor; auto.
Qed.

Section Inv.
  Variable qs : list request.
  Variable P : bytes -> Prop.
  Hypothesis HW : forall q, In q qs -> Writes P (round_trip q).

  Definition result_sub (q : request) (r : result outcome) : Prop :=
    match r with
    | Done a => Sub (round_trip q) (Ret a)
    | Crashed => Sub (round_trip q) Crash
    | OutOfModel => Sub (round_trip q) Unmodelled
    end.
  Definition fg_ok (q : request) (t : tstate) : Prop :=
    match t with
    | TStart q' => q' = q
    | TFg q' p => q' = q /\ Sub (round_trip q) p
    | TDoneFg q' r => q' = q /\ result_sub q r
    | _ => False
    end.
  (* a background program: what remains of something spawned below the tree of one of the requests *)
  Definition bg_root (p : prog unit) : Prop :=
    exists q b, In q qs /\ SpawnedBy (round_trip q) b /\ Sub b p.
  Definition bg_ok (t : tstate) : Prop :=
    match t with
    | TBg p => bg_root p
    | TDoneBg true => True
    | TDoneBg false => exists p, bg_root p /\ (p = Crash \/ p = Unmodelled)
    | _ => False
    end.
  Definition cinv (cw : cworld) : Prop :=
    Forall2 fg_ok qs (cw_fg cw) /\ Forall bg_ok (cw_bg cw) /\ keys_ok P (w_store (cw_w cw)).

  Lemma fg_state_ok q p : Sub (round_trip q) p -> fg_ok q (fg_state q p).
  Proof.
    intros H. unfold fg_state. destruct p; cbn; auto.
  Qed.
  Lemma bg_state_ok p : bg_root p -> bg_ok (bg_state p).
  Proof.
    intros H. unfold bg_state. destruct p as [[]| | | | | | | | | |]; cbn [finished bg_ok]; auto.
    - exists Crash. split; [exact H|auto].
    - exists Unmodelled. split; [exact H|auto].
  Qed.

  Lemma bg_root_sub p p' : bg_root p -> Sub p p' -> bg_root p'.
  Proof. intros (q & b & Hq & Hb & Hs) H. exists q, b. repeat split; auto. eapply Sub_trans; eassumption. Qed.
  Lemma bg_root_spawn p b : bg_root p -> SpawnedBy p b -> bg_root b.
  Proof.
    intros (q & b0 & Hq & Hb & Hs) H. exists q, b. repeat split; auto; [|apply SU_refl].
    eapply SpawnedBy_trans; [exact Hb|]. eapply Sub_SpawnedBy; eassumption.
  Qed.

  Lemma settle_spawned_ok clock fuel : forall ps, Forall bg_root ps -> Forall bg_ok (settle_spawned clock ps fuel).
  Proof.
    induction fuel as [|f IH]; intros ps H; destruct ps as [|p r]; cbn; try constructor.
    inversion H as [|? ? Hp Hr]; subst.
    destruct (settle p clock []) as [p' more] eqn:E.
    destruct (settle_sub p clock [] p' more E) as [HS (m & -> & HF)]. cbn [app] in *.
    constructor.
    - apply bg_state_ok. eapply bg_root_sub; eassumption.
    - apply IH. apply Forall_app. split; [exact Hr|].
      eapply Forall_impl; [|exact HF]. intros b Hb. eapply bg_root_spawn; eassumption.
  Qed.

  Lemma bg_root_writes p : bg_root p -> Writes P p.
  Proof.
    intros (q & b & Hq & Hb & Hs). eapply Writes_Sub; [|exact Hs]. eapply Writes_SpawnedBy; [|exact Hb]. apply HW, Hq.
  Qed.

  Local Opaque settle_spawned.
  Lemma cinv_step T l cw cw' : cinv cw -> cstep T l cw = Some cw' -> cinv cw'.
  Proof.
    intros (Hfg & Hbg & Hk) H. unfold cstep in H. destruct l as [i|j|].
    - destruct (nth_error (cw_fg cw) i) as [t|] eqn:En; [|discriminate].
      destruct (Forall2_nth _ _ _ _ _ Hfg En) as (q & Hq & Hok).
      assert (Hin : In q qs) by (eapply nth_error_In; exact Hq).
      destruct t as [q'|q' p| | |]; try discriminate.
      + cbn in Hok. subst q'.
        destruct (settle (round_trip q) (w_clock (cw_w cw)) []) as [p' sp] eqn:E.
        injection H as <-. destruct (settle_sub _ _ _ _ _ E) as [HS (m & -> & HF)]. cbn [app] in *.
        repeat split; cbn [cw_fg cw_bg cw_w].
        * eapply Forall2_replace; [exact Hfg|exact Hq|]. apply fg_state_ok, HS.
        * apply Forall_app. split; [exact Hbg|]. apply settle_spawned_ok.
          eapply Forall_impl; [|exact HF]. intros b Hb. exists q, b. repeat split; auto. apply SU_refl.
        * exact Hk.
      + cbn in Hok. destruct Hok as [-> Hsub].
        destruct (perform None p (cw_w cw)) as [p1 w1] eqn:Ep.
        destruct (settle p1 (w_clock w1) []) as [p2 sp] eqn:E.
        injection H as <-. destruct (settle_sub _ _ _ _ _ E) as [HS (m & -> & HF)]. cbn [app] in *.
        pose proof (perform_sub _ _ _ _ _ Ep) as HP1.
        assert (Hsub2 : Sub (round_trip q) p2) by (eapply Sub_trans; [exact Hsub|eapply Sub_trans; eassumption]).
        repeat split; cbn [cw_fg cw_bg cw_w].
        * eapply Forall2_replace; [exact Hfg|exact Hq|]. apply fg_state_ok, Hsub2.
        * apply Forall_app. split; [exact Hbg|]. apply settle_spawned_ok.
          eapply Forall_impl; [|exact HF]. intros b Hb. exists q, b. repeat split; auto; [|apply SU_refl].
          eapply Sub_SpawnedBy; [|exact Hb]. exact (Sub_trans _ _ _ Hsub HP1).
        * eapply perform_keys; [|exact Hk|exact Ep]. eapply Writes_Sub; [apply HW, Hin|exact Hsub].
    - destruct (nth_error (cw_bg cw) j) as [t|] eqn:En; [|discriminate].
      destruct t as [| |p| |]; try discriminate.
      assert (Hroot : bg_root p).
      { rewrite Forall_forall in Hbg. apply (Hbg (TBg p)). eapply nth_error_In; exact En. }
      destruct (perform (Some T) p (cw_w cw)) as [p1 w1] eqn:Ep.
      destruct (settle p1 (w_clock w1) []) as [p2 sp] eqn:E.
      injection H as <-. destruct (settle_sub _ _ _ _ _ E) as [HS (m & -> & HF)]. cbn [app] in *.
      pose proof (perform_sub _ _ _ _ _ Ep) as HP1.
      assert (Hroot2 : bg_root p2) by (eapply bg_root_sub; [exact Hroot|eapply Sub_trans; eassumption]).
      repeat split; cbn [cw_fg cw_bg cw_w].
      + exact Hfg.
      + apply Forall_app. split.
        * apply Forall_replace; [exact Hbg|]. apply bg_state_ok, Hroot2.
        * apply settle_spawned_ok. eapply Forall_impl; [|exact HF]. intros b Hb.
          eapply bg_root_spawn; [|exact Hb]. eapply bg_root_sub; [exact Hroot|exact HP1].
      + eapply perform_keys; [apply bg_root_writes, Hroot|exact Hk|exact Ep].
    - injection H as <-. split; [exact Hfg|split; [exact Hbg|exact Hk]].
  Qed.

  Lemma cinv_schedule T sched : forall cw n cw' n', cinv cw -> run_schedule T sched cw n = (cw', n') -> cinv cw'.
  Proof.
    induction sched as [|l r IH]; intros cw n cw' n' Hi H; cbn in H.
    - injection H as <- _. exact Hi.
    - destruct (cstep T l cw) as [cw1|] eqn:E.
      + eapply IH; [|exact H]. eapply cinv_step; eassumption.
      + injection H as <- _. exact Hi.
  Qed.

  Lemma cinv_init w : keys_ok P (w_store w) ->
    cinv {| cw_w := w; cw_fg := map TStart qs; cw_bg := []; cw_trace := [] |}.
  Proof.
    intros Hk. repeat split; cbn; auto.
    clear. induction qs as [|q l IH]; cbn; constructor; cbn; auto.
  Qed.
End Inv.
