(* TieInval.v — the invalidation of Transport.v (invalidate_cache, invalidate_locations: which keys are deleted, in
   which order, after which reads of the store) is what the translator derives from internal/cacheinvalidator.go of
   /repo on this run (Generated/SrcInval.v), up to [peq]. *)
From HC Require Import Transport Run.
From HC.Generated Require Import SrcInval.
From HC.Proofs Require Import ProgEq.
Open Scope Z_scope.

(* deleting a, then b, with one set of keys already deleted, is deleting a ++ b *)
Lemma peq_del_all_app {A} a b : forall done (c c' : list bytes -> prog A),
  (forall d, peq (c d) (c' d)) -> peq (del_all a done (fun d => del_all b d c)) (del_all (a ++ b) done c').
Proof.
  induction a as [|k a IH]; intros done c c' H; cbn [del_all app].
  - apply peq_del_all, H.
  - destruct (existsb _ _); [|constructor]; apply IH, H.
Qed.

Lemma tie_invalidate_locations {A} hs u h : forall done (c c' : list bytes -> prog A),
  (forall d, peq (c d) (c' d)) -> peq (src_invalidate_locations hs u h done c) (invalidate_locations hs u h done c').
Proof.
  induction hs as [|hn hs IH]; intros done c c' H; cbn [src_invalidate_locations invalidate_locations]; [apply H|].
  cbv zeta. destruct (hget hn h) as [|x l]; [apply IH, H|].
  change (beq (x :: l) []) with false. cbv iota.
  destruct (parse_url (x :: l)) as [pr|]; [|constructor].
  destruct (same_origin _ _); [|apply IH, H].
  unfold get_refs_clean. constructor. intros ans. destruct (ref_ids _) as [ids|]; [|constructor].
  apply peq_del_all_app. intros d. apply IH, H.
Qed.

Theorem tie_invalidate_cache {A} u h refs key (c c' : prog A) :
  peq c c' -> peq (src_invalidate_cache u h refs key c) (invalidate_cache u h refs key c').
Proof.
  intros H. unfold src_invalidate_cache, invalidate_cache. destruct (ref_ids refs) as [ids|]; [|constructor].
  apply peq_del_all. intros d. apply tie_invalidate_locations. intros d'. apply peq_del_all. intros _. exact H.
Qed.

(* ... and therefore they run alike *)
Corollary tie_invalidate_cache_run {A} u h refs key (c : prog A) limit w :
  run limit (src_invalidate_cache u h refs key c) w = run limit (invalidate_cache u h refs key c) w.
Proof. apply run_peq, tie_invalidate_cache, peq_refl. Qed.
