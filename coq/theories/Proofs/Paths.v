(* Paths.v — predicates over effect trees that quantify over every answer the environment can give
   (store contents, origin replies, clock readings): the adversarial reading of the transport. *)
From HC Require Import Transport.
Open Scope Z_scope.

(* no origin call on any path, for any store answer and any clock *)
Inductive NoOrigin {A : Type} : prog A -> Prop :=
| NO_Ret a : NoOrigin (Ret a)
| NO_GetRefs k c : (forall x, NoOrigin (c x)) -> NoOrigin (GetRefs k c)
| NO_GetEntry k c : (forall x, NoOrigin (c x)) -> NoOrigin (GetEntry k c)
| NO_SetEntry k e c : NoOrigin c -> NoOrigin (SetEntry k e c)
| NO_SetRefs k l c : NoOrigin c -> NoOrigin (SetRefs k l c)
| NO_Del k c : NoOrigin c -> NoOrigin (Del k c)
| NO_Now c : (forall t, NoOrigin (c t)) -> NoOrigin (Now c)
| NO_Spawn p c : NoOrigin p -> NoOrigin c -> NoOrigin (Spawn p c)
| NO_Crash : NoOrigin Crash
| NO_Unmodelled : NoOrigin Unmodelled.

(* no Go panic on any path, whatever the store, the origin and the clock answer *)
Inductive NoCrash {A : Type} : prog A -> Prop :=
| NC_Ret a : NoCrash (Ret a)
| NC_GetRefs k c : (forall x, NoCrash (c x)) -> NoCrash (GetRefs k c)
| NC_GetEntry k c : (forall x, NoCrash (c x)) -> NoCrash (GetEntry k c)
| NC_SetEntry k e c : NoCrash c -> NoCrash (SetEntry k e c)
| NC_SetRefs k l c : NoCrash c -> NoCrash (SetRefs k l c)
| NC_Del k c : NoCrash c -> NoCrash (Del k c)
| NC_Origin r c : (forall x, NoCrash (c x)) -> NoCrash (Origin r c)
| NC_Now c : (forall t, NoCrash (c t)) -> NoCrash (Now c)
| NC_Spawn p c : NoCrash p -> NoCrash c -> NoCrash (Spawn p c)
| NC_Unmodelled : NoCrash Unmodelled.

(* every leaf satisfies P; every Origin node's request satisfies R *)
Inductive Leaves {A : Type} (P : A -> Prop) : prog A -> Prop :=
| LV_Ret a : P a -> Leaves P (Ret a)
| LV_GetRefs k c : (forall x, Leaves P (c x)) -> Leaves P (GetRefs k c)
| LV_GetEntry k c : (forall x, Leaves P (c x)) -> Leaves P (GetEntry k c)
| LV_SetEntry k e c : Leaves P c -> Leaves P (SetEntry k e c)
| LV_SetRefs k l c : Leaves P c -> Leaves P (SetRefs k l c)
| LV_Del k c : Leaves P c -> Leaves P (Del k c)
| LV_Origin r c : (forall x, Leaves P (c x)) -> Leaves P (Origin r c)
| LV_Now c : (forall t, Leaves P (c t)) -> Leaves P (Now c)
| LV_Spawn p c : Leaves P c -> Leaves P (Spawn p c)
| LV_Crash : Leaves P Crash
| LV_Unmodelled : Leaves P Unmodelled.

Inductive OriginReqs {A : Type} (R : request -> Prop) : prog A -> Prop :=
| OR_Ret a : OriginReqs R (Ret a)
| OR_GetRefs k c : (forall x, OriginReqs R (c x)) -> OriginReqs R (GetRefs k c)
| OR_GetEntry k c : (forall x, OriginReqs R (c x)) -> OriginReqs R (GetEntry k c)
| OR_SetEntry k e c : OriginReqs R c -> OriginReqs R (SetEntry k e c)
| OR_SetRefs k l c : OriginReqs R c -> OriginReqs R (SetRefs k l c)
| OR_Del k c : OriginReqs R c -> OriginReqs R (Del k c)
| OR_Origin r c : R r -> (forall x, OriginReqs R (c x)) -> OriginReqs R (Origin r c)
| OR_Now c : (forall t, OriginReqs R (c t)) -> OriginReqs R (Now c)
| OR_Spawn p c : OriginReqs R p -> OriginReqs R c -> OriginReqs R (Spawn p c)
| OR_Crash : OriginReqs R Crash
| OR_Unmodelled : OriginReqs R Unmodelled.

Lemma NoOrigin_bind {A B} (p : prog A) (f : A -> prog B) :
  NoOrigin p -> (forall a, NoOrigin (f a)) -> NoOrigin (bind p f).
Proof.
  intros Hp Hf; induction Hp; cbn [bind]; try (constructor; auto; fail); auto.
Qed.

Lemma NoCrash_bind {A B} (p : prog A) (f : A -> prog B) :
  NoCrash p -> (forall a, NoCrash (f a)) -> NoCrash (bind p f).
Proof.
  intros Hp Hf; induction Hp; cbn [bind]; try (constructor; auto; fail); auto.
Qed.

Lemma OriginReqs_bind {A B} R (p : prog A) (f : A -> prog B) :
  OriginReqs R p -> (forall a, OriginReqs R (f a)) -> OriginReqs R (bind p f).
Proof.
  intros Hp Hf; induction Hp; cbn [bind]; try (constructor; auto; fail); auto.
Qed.
