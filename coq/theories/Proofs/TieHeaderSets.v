(* TieHeaderSets.v — hop_by_hop_headers, remove_hop_by_hop and update_stored_headers of Transport.v are the functions the
   translator derives from internal/helpers.go of /repo on this run (Generated/SrcHeaderSets.v). *)
From HC Require Import Transport.
From HC.Generated Require Import SrcHeaderSets.
Open Scope Z_scope.

Lemma flat_map_singleton {X} (l : list X) : flat_map (fun x => [x]) l = l.
Proof. induction l as [|x l IH]; cbn; [reflexivity|]. rewrite IH. reflexivity. Qed.

Lemma flat_map_ext' {X Y} (f g : X -> list Y) l : (forall x, f x = g x) -> flat_map f l = flat_map g l.
Proof. intros H. induction l as [|x l IH]; cbn; [reflexivity|]. rewrite H, IH. reflexivity. Qed.

Theorem tie_hop_by_hop_headers h : src_hop_by_hop_headers h = hop_by_hop_headers h.
Proof.
  unfold src_hop_by_hop_headers, hop_by_hop_headers, hop_by_hop_fixed. cbv zeta. f_equal.
  apply flat_map_ext'. intros line. apply flat_map_singleton.
Qed.

Theorem tie_remove_hop_by_hop h : src_remove_hop_by_hop h = remove_hop_by_hop h.
Proof. unfold src_remove_hop_by_hop, remove_hop_by_hop. cbv zeta. rewrite tie_hop_by_hop_headers. reflexivity. Qed.

Lemma fold_left_ext' {X Y} (f g : X -> Y -> X) l : (forall a y, f a y = g a y) -> forall a, fold_left f l a = fold_left g l a.
Proof. intros H. induction l as [|y l IH]; intros a; cbn; [reflexivity|]. rewrite H. apply IH. Qed.

Lemma in_names_snoc x l c : in_names x (l ++ [c]) = in_names x (c :: l).
Proof.
  unfold in_names. rewrite existsb_app. cbn [existsb]. rewrite Bool.orb_false_r. apply Bool.orb_comm.
Qed.

Theorem tie_update_stored_headers stored fresh : src_update_stored_headers stored fresh = update_stored_headers stored fresh.
Proof.
  unfold src_update_stored_headers, update_stored_headers. cbv zeta. rewrite tie_hop_by_hop_headers.
  apply fold_left_ext'. intros acc kv. rewrite in_names_snoc. reflexivity.
Qed.
