(* RunProofs.v — facts about the sequential interpreter and the store effects of invalidation (C07)
   and of storing (C08). *)
From HC Require Import Transport Run.
From HC.Proofs Require Import HeaderProofs.
Open Scope Z_scope.

Definition gone (k : bytes) (w : world) : Prop := alookup k (w_store w) = None.

(* a world transition that only deletes keys of [ks] and leaves everything else (store, clock, script) alone *)
Record deletes_only (ks : list bytes) (w w' : world) : Prop := {
  do_clock : w_clock w' = w_clock w;
  do_script : w_script w' = w_script w;
  do_calls : w_calls w' = w_calls w;
  do_frame : forall k, in_names k ks = false -> alookup k (w_store w') = alookup k (w_store w);
  do_monotone : forall k, gone k w -> gone k w'
}.

Lemma deletes_only_refl ks w : deletes_only ks w w.
Proof. constructor; auto. Qed.

Lemma in_names_app k a b : in_names k (a ++ b) = in_names k a || in_names k b.
Proof. unfold in_names; apply existsb_app. Qed.

Lemma deletes_only_trans ks1 ks2 w1 w2 w3 :
  deletes_only ks1 w1 w2 -> deletes_only ks2 w2 w3 -> deletes_only (ks1 ++ ks2) w1 w3.
Proof.
  intros [a1 b1 c1 d1 e1] [a2 b2 c2 d2 e2]; constructor; try congruence.
  - intros k Hk. rewrite in_names_app in Hk. apply Bool.orb_false_iff in Hk as [H1 H2].
    rewrite d2, d1; auto.
  - auto.
Qed.

Lemma deletes_only_weaken ks ks' w w' :
  (forall k, in_names k ks = true -> in_names k ks' = true) -> deletes_only ks w w' -> deletes_only ks' w w'.
Proof.
  intros Hs [a b c d e]; constructor; auto.
  intros k Hk. apply d. destruct (in_names k ks) eqn:E; [rewrite (Hs k E) in Hk; discriminate|reflexivity].
Qed.

Lemma in_names_cons k x l : in_names k (x :: l) = beq k x || in_names k l.
Proof. reflexivity. Qed.

(* one Del step *)
Lemma del_step limit {A} k (c : prog A) w :
  exists w', run limit (Del k c) w = run limit c w' /\ deletes_only [k] w w' /\ gone k w'.
Proof.
  eexists; split; [reflexivity|]. split.
  - constructor; cbn; auto.
    + intros k' Hk. cbn in Hk. rewrite Bool.orb_false_r in Hk. apply alookup_aremove_other. exact Hk.
    + intros k' Hg. unfold gone in *. cbn.
      destruct (beq k' k) eqn:E; [apply beq_eq in E; subst; apply alookup_aremove_same|].
      rewrite alookup_aremove_other by exact E. exact Hg.
  - unfold gone; cbn. apply alookup_aremove_same.
Qed.

(* del_all deletes every key of ks that is not already in done *)
Lemma run_del_all limit {A} ks : forall done (c : list bytes -> prog A) w,
  (forall k, in_names k done = true -> gone k w) ->
  exists d' w', run limit (del_all ks done c) w = run limit (c d') w' /\
    deletes_only ks w w' /\
    (forall k, in_names k (ks ++ done) = true -> gone k w') /\
    (forall k, in_names k d' = true <-> in_names k (ks ++ done) = true).
Proof.
  induction ks as [|k ks IH]; intros done c w Hdone; cbn [del_all].
  - exists done, w. split; [reflexivity|]. split; [apply deletes_only_refl|]. split; [exact Hdone|]. intros; reflexivity.
  - destruct (existsb (beq k) done) eqn:E.
    + destruct (IH done c w Hdone) as (d' & w' & Hr & Hd & Hg & Hi).
      exists d', w'. split; [exact Hr|]. split.
      * eapply deletes_only_weaken; [|exact Hd]. intros k' Hk. rewrite in_names_cons, Hk. apply Bool.orb_true_r.
      * split.
        -- intros k' Hk. cbn [app] in Hk. rewrite in_names_cons in Hk.
           apply Bool.orb_true_iff in Hk as [Hk|Hk]; [|apply Hg; exact Hk].
           apply beq_eq in Hk; subst k'. apply Hg. rewrite in_names_app. unfold in_names at 2. rewrite E. apply Bool.orb_true_r.
        -- intros k'. rewrite Hi. cbn [app]. rewrite in_names_cons.
           split; [intros H; rewrite H; apply Bool.orb_true_r|].
           intros H. apply Bool.orb_true_iff in H as [H|H]; [|exact H].
           apply beq_eq in H; subst k'. rewrite in_names_app. unfold in_names at 2. rewrite E. apply Bool.orb_true_r.
    + destruct (del_step limit k (del_all ks (k :: done) c) w) as (w1 & Hr1 & Hd1 & Hg1).
      assert (Hdone1 : forall k', in_names k' (k :: done) = true -> gone k' w1).
      { intros k' Hk. rewrite in_names_cons in Hk. apply Bool.orb_true_iff in Hk as [Hk|Hk].
        - apply beq_eq in Hk; subst; exact Hg1.
        - apply (do_monotone _ _ _ Hd1). apply Hdone. exact Hk. }
      destruct (IH (k :: done) c w1 Hdone1) as (d' & w' & Hr & Hd & Hg & Hi).
      exists d', w'. split; [rewrite Hr1; exact Hr|]. split.
      * apply (deletes_only_trans [k] ks w w1 w' Hd1 Hd).
      * split.
        -- intros k' Hk. apply Hg. cbn [app] in Hk. rewrite in_names_cons in Hk.
           rewrite in_names_app, in_names_cons. rewrite in_names_app in Hk.
           destruct (beq k' k), (in_names k' ks), (in_names k' done); cbn in *; auto.
        -- intros k'. rewrite Hi. cbn [app]. rewrite in_names_cons, !in_names_app, in_names_cons.
           destruct (beq k' k), (in_names k' ks), (in_names k' done); cbn; split; auto.
Qed.

(* ---------- invalidation ---------- *)
Definition ids_of (l : list (option ref)) : list bytes :=
  match ref_ids (drop_nil_refs l) with Some ids => ids | None => [] end.

(* the same-origin URIs named by Location / Content-Location, as keys *)
Fixpoint location_keys (hs : list bytes) (u : url) (h : headers) : list bytes :=
  match hs with
  | [] => []
  | hn :: rest =>
      match hget hn h with
      | [] => location_keys rest u h
      | loc =>
          match parse_url loc with
          | None => location_keys rest u h
          | Some pr =>
              let lu := resolve_reference u pr in
              if same_origin u lu then make_url_key lu :: location_keys rest u h
              else location_keys rest u h
          end
      end
  end.

Lemma ref_ids_drop l : exists ids, ref_ids (drop_nil_refs l) = Some ids.
Proof.
  induction l as [|[r|] l IH]; cbn; eauto.
  destruct IH as [ids E]; rewrite E; cbn; eauto.
Qed.

Lemma log_event_same w ev :
  w_store (log_event w ev) = w_store w /\ w_clock (log_event w ev) = w_clock w /\
  w_script (log_event w ev) = w_script w /\ w_calls (log_event w ev) = w_calls w.
Proof. repeat split. Qed.

Lemma deletes_only_log ks w w' ev : deletes_only ks (log_event w ev) w' -> deletes_only ks w w'.
Proof. intros [a b c d e]; constructor; auto. Qed.

(* what an invalidation may delete: the keys in [allowed] *)
Lemma run_invalidate_locations limit {A} u h hs : forall done (c : list bytes -> prog A) w,
  (forall k, in_names k done = true -> gone k w) ->
  (exists w', run limit (invalidate_locations hs u h done c) w = (OutOfModel, w')) \/
  exists d' w' ks, run limit (invalidate_locations hs u h done c) w = run limit (c d') w' /\
    deletes_only ks w w' /\
    (forall k, in_names k d' = true -> gone k w') /\
    (forall k, in_names k done = true -> in_names k d' = true) /\
    (forall lk, In lk (location_keys hs u h) -> gone lk w') /\
    (forall k, in_names k ks = true ->
       In k (location_keys hs u h) \/
       exists lk l, In lk (location_keys hs u h) /\ get_refs (w_store w) lk = Some l /\ In k (ids_of l)).
Proof.
  induction hs as [|hn hs IH]; intros done c w Hdone; cbn [invalidate_locations location_keys].
  - right. exists done, w, []. split; [reflexivity|]. split; [apply deletes_only_refl|].
    split; [exact Hdone|]. split; [auto|]. split; [intros lk []|]. intros k0 Hk0; discriminate.
  - destruct (hget hn h) as [|b loc] eqn:El; [apply IH; exact Hdone|].
    destruct (parse_url (b :: loc)) as [pr|]; [|left; eexists; reflexivity].
    destruct (same_origin u (resolve_reference u pr)) eqn:Eso; [|apply IH; exact Hdone].
    set (lk := make_url_key (resolve_reference u pr)).
    unfold get_refs_clean. cbn [run].
    set (ans := get_refs (w_store w) lk).
    set (w0 := log_event w _).
    set (refs := match option_map drop_nil_refs ans with Some l => l | None => [] end).
    assert (Hids : exists ids, ref_ids refs = Some ids).
    { unfold refs. destruct ans; cbn; [apply ref_ids_drop|eauto]. }
    destruct Hids as [ids Eids]. rewrite Eids.
    assert (Hdone0 : forall k, in_names k done = true -> gone k w0) by (intros; apply Hdone; assumption).
    destruct (run_del_all limit (ids ++ [lk]) done
                (fun done' => invalidate_locations hs u h done' c) w0 Hdone0) as (d1 & w1 & Hr1 & Hd1 & Hg1 & Hi1).
    rewrite Hr1.
    assert (Hdone1 : forall k, in_names k d1 = true -> gone k w1).
    { intros k Hk. apply Hg1. apply Hi1. exact Hk. }
    destruct (IH d1 c w1 Hdone1) as [[w' Hout]|(d' & w' & ks & Hr & Hd & Hg & Hsub & Hlk & Hks)].
    + left. exists w'. exact Hout.
    + right. exists d', w', ((ids ++ [lk]) ++ ks). split; [exact Hr|]. split.
      * apply deletes_only_log in Hd1. apply (deletes_only_trans _ _ _ _ _ Hd1 Hd).
      * assert (Hin_d1 : forall k, in_names k done = true -> in_names k d1 = true).
        { intros k Hk. apply Hi1. rewrite in_names_app, Hk. apply Bool.orb_true_r. }
        split; [exact Hg|].
        split; [intros k Hk; apply Hsub, Hin_d1, Hk|].
        split.
        -- intros k [Hk|Hk]; [|apply Hlk; exact Hk]. subst k.
           apply Hg. apply Hsub. apply Hi1. rewrite !in_names_app. cbn. rewrite beq_refl. cbn. rewrite Bool.orb_true_r. reflexivity.
        -- intros k Hk. rewrite in_names_app in Hk. apply Bool.orb_true_iff in Hk as [Hk|Hk].
           ++ rewrite in_names_app in Hk. apply Bool.orb_true_iff in Hk as [Hk|Hk].
              ** right. unfold refs, ans in Eids. destruct (get_refs (w_store w) lk) as [l|] eqn:Eg; cbn in Eids.
                 --- exists lk, l. split; [left; reflexivity|]. split; [exact Eg|].
                     unfold ids_of. rewrite Eids. unfold in_names in Hk. apply existsb_exists in Hk as (x & Hx & Hb).
                     apply beq_eq in Hb; subst; exact Hx.
                 --- inversion Eids; subst. discriminate.
              ** left. cbn in Hk. rewrite Bool.orb_false_r in Hk. apply beq_eq in Hk. left. symmetry. exact Hk.
           ++ destruct (Hks k Hk) as [Hl|(lk' & l & Hl & Hgr & Hin)]; [left; right; exact Hl|].
              right. exists lk', l. split; [right; exact Hl|]. split; [|exact Hin].
              (* the index read later was already there at the start, or had been deleted (then None) *)
              unfold get_refs in *. destruct (alookup lk' (w_store w1)) as [v|] eqn:E1; [|discriminate].
              assert (Hfr : alookup lk' (w_store w1) = alookup lk' (w_store w) \/ gone lk' w1).
              { destruct (in_names lk' (ids ++ [lk])) eqn:Ein.
                - right. apply Hg1. rewrite in_names_app, Ein. reflexivity.
                - left. apply deletes_only_log in Hd1. apply (do_frame _ _ _ Hd1). exact Ein. }
              destruct Hfr as [Hfr|Hfr]; [rewrite <- Hfr, E1; exact Hgr|unfold gone in Hfr; congruence].
Qed.


Theorem run_invalidate_cache limit {A} u h refs key (c : prog A) w ids :
  ref_ids refs = Some ids ->
  (exists w', run limit (invalidate_cache u h refs key c) w = (OutOfModel, w')) \/
  exists w' ks, run limit (invalidate_cache u h refs key c) w = run limit c w' /\
    deletes_only ks w w' /\
    gone key w' /\
    (forall id, In id ids -> gone id w') /\
    (forall lk, In lk (location_keys location_headers u h) -> gone lk w') /\
    (forall k, in_names k ks = true ->
       k = key \/ In k ids \/ In k (location_keys location_headers u h) \/
       exists lk l, In lk (location_keys location_headers u h) /\ get_refs (w_store w) lk = Some l /\ In k (ids_of l)).
Proof.
  intros Eids. unfold invalidate_cache. rewrite Eids.
  destruct (run_del_all limit ids []
              (fun done => invalidate_locations location_headers u h done (fun done' => del_all [key] done' (fun _ => c))) w)
    as (d1 & w1 & Hr1 & Hd1 & Hg1 & Hi1); [intros k Hk; discriminate|].
  rewrite Hr1.
  assert (Hdone1 : forall k, in_names k d1 = true -> gone k w1) by (intros k Hk; apply Hg1, Hi1, Hk).
  destruct (run_invalidate_locations limit u h location_headers d1 (fun done' => del_all [key] done' (fun _ => c)) w1 Hdone1)
    as [[w' Hout]|(d2 & w2 & ks2 & Hr2 & Hd2 & Hg2 & Hsub2 & Hlk2 & Hks2)].
  - left. exists w'. exact Hout.
  - right. rewrite Hr2.
    destruct (run_del_all limit [key] d2 (fun _ => c) w2 Hg2) as (d3 & w3 & Hr3 & Hd3 & Hg3 & Hi3).
    exists w3, ((ids ++ ks2) ++ [key]). split; [exact Hr3|]. split.
    + apply (deletes_only_trans _ _ _ _ _ (deletes_only_trans _ _ _ _ _ Hd1 Hd2) Hd3).
    + split; [apply Hg3; cbn; rewrite beq_refl; reflexivity|].
      assert (Hmono : forall k, gone k w1 -> gone k w3).
      { intros k Hk. apply (do_monotone _ _ _ Hd3), (do_monotone _ _ _ Hd2), Hk. }
      split.
      * intros id Hin. apply Hmono, Hg1. rewrite in_names_app. unfold in_names at 1.
        assert (existsb (beq id) ids = true) by (apply existsb_exists; exists id; split; [exact Hin|apply beq_refl]).
        rewrite H; reflexivity.
      * split; [intros lk Hlk; apply (do_monotone _ _ _ Hd3), Hlk2, Hlk|].
        intros k Hk. rewrite !in_names_app in Hk.
        apply Bool.orb_true_iff in Hk as [Hk|Hk]; [apply Bool.orb_true_iff in Hk as [Hk|Hk]|].
        -- right; left. unfold in_names in Hk. apply existsb_exists in Hk as (x & Hx & Hb). apply beq_eq in Hb; subst; exact Hx.
        -- destruct (Hks2 k Hk) as [Hl|(lk & l & Hl & Hgr & Hin)]; [right; right; left; exact Hl|].
           right; right; right. exists lk, l. split; [exact Hl|]. split; [|exact Hin].
           unfold get_refs in *. destruct (alookup lk (w_store w1)) as [v|] eqn:E1; [|discriminate].
           assert (Hfr : alookup lk (w_store w1) = alookup lk (w_store w) \/ gone lk w1).
           { destruct (in_names lk ids) eqn:Ein.
             - right. apply Hg1. rewrite in_names_app, Ein. reflexivity.
             - left. apply (do_frame _ _ _ Hd1). exact Ein. }
           destruct Hfr as [Hfr|Hfr]; [rewrite <- Hfr, E1; exact Hgr|unfold gone in Hfr; congruence].
        -- left. cbn in Hk. rewrite Bool.orb_false_r in Hk. apply beq_eq in Hk. exact Hk.
Qed.

(* ---------- sequencing and storing ---------- *)
Lemma run_bind limit {A B} (p : prog A) (f : A -> prog B) : forall w,
  run limit (bind p f) w =
  match run limit p w with
  | (Done a, w') => run limit (f a) w'
  | (Crashed, w') => (Crashed, w')
  | (OutOfModel, w') => (OutOfModel, w')
  end.
Proof.
  induction p; intros w; cbn [bind run]; auto.
  - destruct (do_origin limit r w) as [rep w']. apply H.
Qed.

Lemma get_entry_aset_same k e s : get_entry (aset k (SEntry e) s) k = Some e.
Proof. unfold get_entry. rewrite alookup_aset_same. reflexivity. Qed.
Lemma get_refs_aset_same k l s : get_refs (aset k (SRefs l) s) k = Some l.
Proof. unfold get_refs. rewrite alookup_aset_same. reflexivity. Qed.
Lemma get_entry_aset_other k k' v s : beq k k' = false -> get_entry (aset k' v s) k = get_entry s k.
Proof. intros H; unfold get_entry. rewrite alookup_aset_other by exact H. reflexivity. Qed.
Lemma get_refs_aset_other k k' v s : beq k k' = false -> get_refs (aset k' v s) k = get_refs s k.
Proof. intros H; unfold get_refs. rewrite alookup_aset_other by exact H. reflexivity. Qed.

(* ---- a background validation whose answer arrives after the entry was invalidated ---- *)
(* what backgroundRevalidate does once the origin has answered (the continuation of its timed round trip) *)
Definition background_after_reply (q : request) (stored : stored_entry) (url_key : bytes)
           (f : freshness) (cc_req : directives) (rep : origin_reply) (start stop : Z) : prog unit :=
  match rep with
  | RErr => Ret tt
  | RResp _ =>
      GetEntry (e_id stored) (fun own =>
        match own with
        | None => Ret tt
        | Some own_entry =>
            if match rep with RResp r => p_status r =? 304 | RErr => false end &&
               negb (sent_validators_of (q_hdr q) (e_hdr own_entry))
            then Ret tt else
            get_refs_clean url_key (fun ans =>
              let refs := match ans with Some l => l | None => [] end in
              let ctx := {| rc_url_key := url_key; rc_start := start; rc_end := stop; rc_cc_req := cc_req;
                            rc_stored := own_entry; rc_fresh := f; rc_refs := refs;
                            rc_ref_index := ref_index_of (e_id stored) refs 0;
                            rc_no_stale := false |} in
              _ <- handle_validation_response ctx q rep ;; Ret tt)
        end)
  end.

Lemma background_revalidate_after_reply q stored url_key f cc_req :
  background_revalidate q stored url_key f cc_req =
  round_trip_timed q (background_after_reply q stored url_key f cc_req).
Proof. reflexivity. Qed.

Lemma late_validation_discarded limit q stored url_key f cc_req rep start stop w :
  gone (e_id stored) w ->
  run limit (background_after_reply q stored url_key f cc_req rep start stop) w =
  (Done tt, match rep with
            | RErr => w
            | RResp _ => log_event w (EvGetEntry (e_id stored) false)
            end).
Proof.
  intros Hg. unfold background_after_reply. destruct rep as [|r]; [reflexivity|].
  cbn [run]. unfold get_entry. unfold gone in Hg. rewrite Hg. reflexivity.
Qed.

(* the store, the clock, the script and the pending work are those of before: only the log grew *)
Lemma log_event_store w ev : w_store (log_event w ev) = w_store w.
Proof. reflexivity. Qed.
