(* InvalProofs.v — C07 across two exchanges: after an exchange whose unsafe request the origin answered with a non-error
   status, the index of the request's URI is gone when the exchange is over (the invalidation spawns nothing, so
   nothing runs after it that could write), and the next request for a URI with that key cannot be answered from the
   store: it contacts the origin, or is answered 504 when it carries only-if-cached. *)
From HC Require Import Transport Run.
From HC.Proofs Require Import HeaderProofs RunProofs Paths ProvProofs.
Open Scope Z_scope.

(* programs that spawn nothing leave the list of pending background programs alone *)
Inductive NoSpawn {A : Type} : prog A -> Prop :=
| NS_Ret a : NoSpawn (Ret a)
| NS_GetRefs k c : (forall x, NoSpawn (c x)) -> NoSpawn (GetRefs k c)
| NS_GetEntry k c : (forall x, NoSpawn (c x)) -> NoSpawn (GetEntry k c)
| NS_SetEntry k e c : NoSpawn c -> NoSpawn (SetEntry k e c)
| NS_SetRefs k l c : NoSpawn c -> NoSpawn (SetRefs k l c)
| NS_Del k c : NoSpawn c -> NoSpawn (Del k c)
| NS_Origin q c : (forall x, NoSpawn (c x)) -> NoSpawn (Origin q c)
| NS_Now c : (forall t, NoSpawn (c t)) -> NoSpawn (Now c)
| NS_Crash : NoSpawn Crash
| NS_Unmodelled : NoSpawn Unmodelled.

Lemma do_origin_pending limit q w : w_pending (snd (do_origin limit q w)) = w_pending w.
Proof.
  unfold do_origin. destruct (w_script w) as [|[[d r0] rc] t]; destruct limit as [T|]; cbn;
    try destruct (T <? _); reflexivity.
Qed.

Lemma run_nospawn {A} (p : prog A) : NoSpawn p -> forall limit w, w_pending (snd (run limit p w)) = w_pending w.
Proof.
  induction 1 as [a|k c _ IH|k c _ IH|k e c _ IH|k l c _ IH|k c _ IH|q c _ IH|c _ IH| |]; intros limit w; cbn [run]; try reflexivity.
  - rewrite IH. reflexivity.
  - rewrite IH. reflexivity.
  - rewrite IH. reflexivity.
  - rewrite IH. reflexivity.
  - rewrite IH. reflexivity.
  - pose proof (do_origin_pending limit q w) as Hp. destruct (do_origin limit q w) as [rep w1]. cbn [snd] in Hp.
    rewrite IH. exact Hp.
  - apply IH.
Qed.

Lemma del_all_nospawn {A} ks : forall done (c : list bytes -> prog A), (forall d, NoSpawn (c d)) -> NoSpawn (del_all ks done c).
Proof. induction ks as [|k ks IH]; intros done c H; cbn; auto. destruct (existsb _ _); auto. constructor; auto. Qed.

Lemma invalidate_locations_nospawn {A} ru h hs : forall done (c : list bytes -> prog A),
  (forall d, NoSpawn (c d)) -> NoSpawn (invalidate_locations hs ru h done c).
Proof.
  induction hs as [|hn hs IH]; intros done c Hc; cbn [invalidate_locations]; auto.
  destruct (hget hn h); [apply IH, Hc|]. destruct (parse_url _); [|constructor].
  destruct (same_origin _ _); [|apply IH, Hc].
  unfold get_refs_clean. constructor. intros ans. destruct (ref_ids _); [|constructor].
  apply del_all_nospawn. intros d'. apply IH, Hc.
Qed.

Lemma invalidate_cache_nospawn {A} ru h refs key (c : prog A) : NoSpawn c -> NoSpawn (invalidate_cache ru h refs key c).
Proof.
  intros Hc. unfold invalidate_cache. destruct (ref_ids _); [|constructor].
  apply del_all_nospawn. intros d. apply invalidate_locations_nospawn. intros d'. apply del_all_nospawn. auto.
Qed.

Lemma unrecognized_nospawn q u : NoSpawn (handle_unrecognized_method q u).
Proof.
  unfold handle_unrecognized_method. destruct (req_only_if_cached _); [constructor|]. constructor. intros [|r]; [constructor|].
  destruct (_ && _); [|constructor]. unfold get_refs_clean. constructor. intros ans.
  apply invalidate_cache_nospawn. constructor.
Qed.

(* the exchange of an unsafe request that ends with a non-error response of the origin: the index of its URI is gone *)
Theorem unsafe_exchange_invalidates cfg q w obs w' r :
  is_request_method_understood q = false -> is_unsafe_method (q_method q) = true ->
  exchange cfg q w = (obs, w') ->
  x_result obs = Done (OResp r) -> is_non_error_status (p_status r) = true ->
  gone (make_url_key (q_url q)) w'.
Proof.
  intros Hund Hunsafe Hx Hres Hok. unfold exchange in Hx.
  set (u := make_url_key (q_url q)) in *.
  assert (Hrt : round_trip q = handle_unrecognized_method q u) by (unfold round_trip; rewrite Hund; reflexivity).
  rewrite Hrt in Hx.
  pose proof (run_nospawn _ (unrecognized_nospawn q u) None (clear_log_pending w)) as Hpend.
  destruct (run None (handle_unrecognized_method q u) (clear_log_pending w)) as [res w1] eqn:E1.
  cbn [snd] in Hpend. cbn [clear_log_pending w_pending] in Hpend. rewrite Hpend in Hx.
  cbn [run_pending] in Hx. cbv beta iota zeta in Hx.
  assert (Ho := f_equal fst Hx). assert (Hw := f_equal snd Hx). cbn [fst snd] in Ho, Hw. subst obs w'. clear Hx. cbn [x_result] in Hres. subst res.
  cbn [clear_log_pending]. unfold gone. cbn [w_store].
  (* the foreground run *)
  unfold handle_unrecognized_method in E1.
  destruct (req_only_if_cached _).
  { cbn [run] in E1. assert (Hr := f_equal fst E1). cbn [fst] in Hr. inversion Hr as [Hr']. rewrite <- Hr' in Hok. vm_compute in Hok. discriminate. }
  cbn [run] in E1.
  destruct (do_origin None q (clear_log_pending w)) as [rep wa].
  destruct rep as [|r0]; [cbn [run] in E1; discriminate|].
  rewrite Hunsafe in E1. cbn [andb] in E1.
  destruct (is_non_error_status (p_status r0)) eqn:Eok.
  - unfold get_refs_clean in E1. cbn [run] in E1.
    match type of E1 with run _ (invalidate_cache _ _ ?refs _ _) ?wb = _ => set (rf := refs) in *; set (w_b := wb) in * end.
    assert (Hids : exists ids, ref_ids rf = Some ids).
    { unfold rf. destruct (get_refs (w_store wa) u) as [l|]; cbn [option_map]; [apply ref_ids_drop|exists []; reflexivity]. }
    destruct Hids as [ids Hids].
    destruct (run_invalidate_cache None (q_url q) (p_hdr r0) rf u
                (Ret (OResp (with_hdr r0 (apply_status BYPASS (p_hdr r0))))) w_b ids Hids)
      as [(wo & Ho)|(wc & ks & Hrun & _ & Hgone & _)].
    + rewrite Ho in E1. discriminate.
    + rewrite Hrun in E1. cbn [run] in E1. assert (Hw := f_equal snd E1). cbn [snd] in Hw. rewrite <- Hw. exact Hgone.
  - cbn [run] in E1. assert (Hr := f_equal fst E1). cbn [fst] in Hr. inversion Hr as [Hr']. rewrite <- Hr' in Hok. cbn [with_hdr p_status] in Hok. congruence.
Qed.

(* ... and the next request for that key is not answered from the store: it is answered 504 (only-if-cached) or the
   origin is called with exactly this request *)
Lemma miss_after_gone limit q w :
  is_request_method_understood q = true -> gone (make_url_key (q_url q)) w ->
  run limit (round_trip q) w =
  run limit (handle_cache_miss q (make_url_key (q_url q)) [] (-1)) (log_event w (EvGetRefs (make_url_key (q_url q)) false)).
Proof.
  intros Hm Hg. unfold round_trip, get_refs_clean. rewrite Hm. cbn [negb run].
  unfold get_refs. unfold gone in Hg. rewrite Hg. reflexivity.
Qed.

Theorem next_request_not_from_store limit q w res w1 :
  is_request_method_understood q = true -> gone (make_url_key (q_url q)) w ->
  run limit (round_trip q) w = (res, w1) ->
  res = Done (OResp response_504) \/ exists i a b rep, In (EvCall i q a b rep) (w_log w1).
Proof.
  intros Hm Hg Hr. rewrite (miss_after_gone limit q w Hm Hg) in Hr. unfold handle_cache_miss in Hr.
  destruct (req_only_if_cached _).
  - left. cbn [run] in Hr. congruence.
  - right. unfold round_trip_timed in Hr. cbn [run] in Hr.
    destruct (do_origin_logs_call limit q (log_event w (EvGetRefs (make_url_key (q_url q)) false))) as (i & a & b & rep & Hl).
    destruct (do_origin limit q _) as [rp wa]. cbn [snd] in Hl.
    destruct (run_log_mono _ _ _ _ _ Hr) as [[y Hy] _].
    exists i, a, b, rep. rewrite Hy, Hl. apply in_or_app. right. left. reflexivity.
Qed.

(* the two exchanges together *)
Theorem unsafe_then_get cfg q q' gap w obs w1 obs' w2 r :
  is_request_method_understood q = false -> is_unsafe_method (q_method q) = true ->
  exchange cfg q w = (obs, w1) ->
  x_result obs = Done (OResp r) -> is_non_error_status (p_status r) = true ->
  is_request_method_understood q' = true -> make_url_key (q_url q') = make_url_key (q_url q) ->
  exchange cfg q' {| w_store := w_store w1; w_clock := w_clock w1 + gap; w_script := w_script w1;
                     w_calls := w_calls w1; w_log := []; w_pending := [] |} = (obs', w2) ->
  x_result obs' = Done (OResp response_504) \/ exists i a b rep, In (EvCall i q' a b rep) (x_events obs').
Proof.
  intros Hund Hunsafe Hx Hres Hok Hund' Hkey Hx'.
  pose proof (unsafe_exchange_invalidates cfg q w obs w1 r Hund Hunsafe Hx Hres Hok) as Hg.
  unfold exchange in Hx'.
  match type of Hx' with context [run None (round_trip q') ?w0] => set (w_0 := w0) in * end.
  destruct (run None (round_trip q') w_0) as [res wa] eqn:E1.
  destruct (run_pending _ _ _) as [ok wb]. assert (Ho := f_equal fst Hx'). cbn [fst] in Ho. subst obs'. cbn [x_result x_events].
  assert (Hg0 : gone (make_url_key (q_url q')) w_0) by (rewrite Hkey; exact Hg).
  destruct (next_request_not_from_store None q' w_0 res wa Hund' Hg0 E1) as [H|(i & a & b & rep & H)]; [left; exact H|right].
  exists i, a, b, rep. apply in_rev in H. exact H.
Qed.
