(* HeaderProofs.v — association lists and header maps. *)
From HC Require Import Transport.
From Coq Require Import ZifyBool.
Open Scope Z_scope.

Lemma beq_refl a : beq a a = true.
Proof. induction a as [|x a IH]; cbn; [reflexivity|]. rewrite Z.eqb_refl, IH. reflexivity. Qed.

Lemma beq_eq a b : beq a b = true <-> a = b.
Proof.
  split; [|intros ->; apply beq_refl].
  revert b; induction a as [|x a IH]; destruct b as [|y b]; cbn; try congruence.
  intros H. apply Bool.andb_true_iff in H as [H1 H2]. apply Z.eqb_eq in H1. rewrite (IH _ H2), H1. reflexivity.
Qed.

Lemma beq_sym a b : beq a b = beq b a.
Proof.
  destruct (beq a b) eqn:E.
  - apply beq_eq in E; subst; symmetry; apply beq_refl.
  - destruct (beq b a) eqn:E2; [|reflexivity]. apply beq_eq in E2; subst. rewrite beq_refl in E. discriminate.
Qed.

Section Assoc.
  Context {V : Type}.
  Lemma alookup_aset_same k (v : V) m : alookup k (aset k v m) = Some v.
  Proof.
    induction m as [|[k' v'] m IH]; cbn; [rewrite beq_refl; reflexivity|].
    destruct (beq k k') eqn:E; cbn; [rewrite beq_refl; reflexivity|rewrite E; exact IH].
  Qed.
  Lemma alookup_aset_other k k' (v : V) m : beq k k' = false -> alookup k (aset k' v m) = alookup k m.
  Proof.
    intros Hne. induction m as [|[k'' v''] m IH]; cbn; [rewrite Hne; reflexivity|].
    destruct (beq k' k'') eqn:E; cbn.
    - apply beq_eq in E; subst k''. rewrite Hne. reflexivity.
    - destruct (beq k k''); [reflexivity|exact IH].
  Qed.
  Lemma alookup_aremove_same k (m : list (bytes * V)) : alookup k (aremove k m) = None.
  Proof.
    induction m as [|[k' v'] m IH]; cbn; [reflexivity|].
    destruct (beq k k') eqn:E; cbn; [exact IH|rewrite E; exact IH].
  Qed.
  Lemma alookup_aremove_other k k' (m : list (bytes * V)) :
    beq k k' = false -> alookup k (aremove k' m) = alookup k m.
  Proof.
    intros Hne. induction m as [|[k'' v''] m IH]; cbn; [reflexivity|].
    destruct (beq k' k'') eqn:E; cbn.
    - apply beq_eq in E; subst k''. rewrite Hne. exact IH.
    - destruct (beq k k''); [reflexivity|exact IH].
  Qed.
End Assoc.

Lemma hvalues_hset_same n v h : hvalues (canonical_key n) (hset n v h) = [v].
Proof. unfold hvalues, hset. rewrite alookup_aset_same. reflexivity. Qed.

Lemma hvalues_hset_other n n' v h :
  beq n (canonical_key n') = false -> hvalues n (hset n' v h) = hvalues n h.
Proof. intros H; unfold hvalues, hset. rewrite alookup_aset_other by exact H. reflexivity. Qed.

Lemma hvalues_hdel_same n h : hvalues (canonical_key n) (hdel n h) = [].
Proof. unfold hvalues, hdel. rewrite alookup_aremove_same. reflexivity. Qed.

Lemma hvalues_hdel_other n n' h :
  beq n (canonical_key n') = false -> hvalues n (hdel n' h) = hvalues n h.
Proof. intros H; unfold hvalues, hdel. rewrite alookup_aremove_other by exact H. reflexivity. Qed.

(* the status fields after ApplyTo *)
Lemma status_values s h : hvalues status_header (apply_status s h) = [status_value s].
Proof.
  unfold apply_status.
  assert (Hc : canonical_key status_header = status_header) by reflexivity.
  assert (Hne : beq status_header (canonical_key from_cache_header) = false) by reflexivity.
  destruct (status_legacy s).
  - rewrite hvalues_hset_other by exact Hne. rewrite <- Hc at 1. apply hvalues_hset_same.
  - rewrite hvalues_hdel_other by exact Hne. rewrite <- Hc at 1. apply hvalues_hset_same.
Qed.

Lemma legacy_values s h :
  hvalues from_cache_header (apply_status s h) = if status_legacy s then [bs "1"] else [].
Proof.
  unfold apply_status.
  assert (Hc : canonical_key from_cache_header = from_cache_header) by reflexivity.
  destruct (status_legacy s).
  - rewrite <- Hc at 1. apply hvalues_hset_same.
  - rewrite <- Hc at 1. apply hvalues_hdel_same.
Qed.

Lemma age_values_after_status s v h :
  hvalues (bs "Age") (apply_status s (hset (bs "Age") v h)) = [v].
Proof.
  unfold apply_status.
  assert (H1 : beq (bs "Age") (canonical_key status_header) = false) by reflexivity.
  assert (H2 : beq (bs "Age") (canonical_key from_cache_header) = false) by reflexivity.
  assert (Hc : canonical_key (bs "Age") = bs "Age") by reflexivity.
  destruct (status_legacy s).
  - rewrite hvalues_hset_other by exact H2. rewrite hvalues_hset_other by exact H1.
    rewrite <- Hc at 1. apply hvalues_hset_same.
  - rewrite hvalues_hdel_other by exact H2. rewrite hvalues_hset_other by exact H1.
    rewrite <- Hc at 1. apply hvalues_hset_same.
Qed.
