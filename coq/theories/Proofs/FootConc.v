(* FootConc.v — the footprint invariant of FootProofs.v under every schedule of concurrent RoundTrip calls and their
   background revalidations (the concurrent semantics of Conc.v: one store / origin operation at a time). *)
From HC Require Import Transport Run Conc.
From HC.Proofs Require Import Paths HeaderProofs RunProofs IndexProofs ProvProofs ConcProofs FootProofs.
Open Scope Z_scope.

Lemma settle_safeF {A} (p : prog A) : forall P Vs u clock sp p' sp',
  SafeF P Vs u p -> settle p clock sp = (p', sp') ->
  SafeF P Vs u p' /\ exists more, sp' = sp ++ more /\ Forall (fun b => SafeF P Vs u b) more.
Proof.
  induction p as [A0 a|A0 k c IH|A0 k c IH|A0 k e c IH|A0 k l c IH|A0 k c IH|A0 r c IH|A0 c IH|A0 b IHb c IHc|A0|A0];
    intros P Vs u clock sp p' sp' HS H; cbn [settle] in H;
    try (injection H as <- <-; split; [exact HS|exists []; rewrite app_nil_r; split; [reflexivity|constructor]]).
  - apply SafeF_inversion in HS. cbn [SafeF_inv] in HS. exact (IH _ P Vs u clock sp p' sp' (HS clock) H).
  - apply SafeF_inversion in HS. cbn [SafeF_inv] in HS. destruct HS as [Hb HS].
    destruct (IHc P Vs u clock (sp ++ [b]) p' sp' HS H) as [Hp' (more & -> & HF)].
    split; [exact Hp'|]. exists (b :: more). split; [rewrite <- app_assoc; reflexivity|constructor; assumption].
Qed.

Lemma perform_safeF {A} (p : prog A) Lf u limit w p1 w1 :
  SafeF (Pl Lf) (VsL Lf) u p -> InvF (Pl Lf) (VsL Lf) (w_store w) -> perform limit p w = (p1, w1) -> incl (w_log w1) Lf ->
  SafeF (Pl Lf) (VsL Lf) u p1 /\ InvF (Pl Lf) (VsL Lf) (w_store w1).
Proof.
  intros HS HI H Hincl. pose proof (SafeF_inversion _ _ _ _ HS) as Hinv.
  destruct p; cbn [perform] in H; cbn [SafeF_inv] in Hinv; try (injection H as <- <-; split; [exact HS|exact HI]).
  - injection H as <- <-. split; [|exact HI]. apply Hinv. intros -> l Hl. destruct HI as [_ I2]. apply (I2 _ _ Hl).
  - injection H as <- <-. split; [|exact HI]. apply Hinv. intros e0 He. destruct HI as [I1 _]. apply (I1 _ _ He).
  - destruct Hinv as (Hk & He & Hc). injection H as <- <-. split; [exact Hc|]. cbn. eapply InvF_set_entry; eassumption.
  - destruct Hinv as (-> & Hq & Hl & Hn & Hc). injection H as <- <-. split; [exact Hc|]. cbn. apply InvF_set_refs; assumption.
  - injection H as <- <-. split; [exact Hinv|]. cbn. apply InvF_del; assumption.
  - destruct Hinv as [Hu Hc].
    destruct (do_origin_reply' limit r w) as (idx & Hl & Hst & _). destruct (do_origin limit r w) as [rep w'] eqn:Ed. cbn [fst snd] in *.
    injection H as <- <-.
    assert (Hin : In (EvCall idx r (w_clock w) (w_clock w') rep) Lf) by (apply Hincl; rewrite Hl; left; reflexivity).
    split; [|rewrite Hst; exact HI]. apply Hc.
    + exists idx, (w_clock w), (w_clock w'), rep. exact Hin.
    + intros r0 E v Hv. subst rep. right. exists idx, r, (w_clock w), (w_clock w'), r0. split; assumption.
Qed.

Section ConcFoot.
  Variable qs : list request.
  Variable Lf : list event.

  Definition fgF_ok (q : request) (t : tstate) : Prop :=
    match t with
    | TStart q' => q' = q
    | TFg q' p => q' = q /\ SafeF (Pl Lf) (VsL Lf) (make_url_key (q_url q)) p
    | TDoneFg q' r => q' = q
    | _ => False
    end.
  Definition bgF_ok (t : tstate) : Prop :=
    match t with TBg p => pend_okF Lf p | TDoneBg _ => True | _ => False end.
  Definition pinvF (cw : cworld) : Prop :=
    Forall2 fgF_ok qs (cw_fg cw) /\ Forall bgF_ok (cw_bg cw) /\ InvF (Pl Lf) (VsL Lf) (w_store (cw_w cw)).

  Lemma fg_state_pokF q p : SafeF (Pl Lf) (VsL Lf) (make_url_key (q_url q)) p -> fgF_ok q (fg_state q p).
  Proof. intros H. unfold fg_state. destruct p; cbn [finished fgF_ok]; try (split; [reflexivity|exact H]); reflexivity. Qed.
  Lemma bg_state_pokF p : pend_okF Lf p -> bgF_ok (bg_state p).
  Proof. intros H. unfold bg_state. destruct p as [[]| | | | | | | | | |]; cbn [finished bgF_ok]; auto. Qed.

  Lemma settle_spawned_pokF clock fuel : forall ps, Forall (pend_okF Lf) ps -> Forall bgF_ok (settle_spawned clock ps fuel).
  Proof.
    induction fuel as [|f IH]; intros ps H; destruct ps as [|p r]; cbn [settle_spawned]; try constructor.
    inversion H as [|? ? [u Hp] Hr]; subst.
    destruct (settle p clock []) as [p' more] eqn:E.
    destruct (settle_safeF p _ _ _ clock [] p' more Hp E) as [Hp' (m & -> & HF)]. cbn [app] in *.
    constructor; [apply bg_state_pokF; exists u; exact Hp'|].
    apply IH. apply Forall_app. split; [exact Hr|]. eapply Forall_impl; [|exact HF]. intros b Hb. exists u. exact Hb.
  Qed.

  Local Opaque settle_spawned.
  Lemma pinvF_step T l cw cw' : pinvF cw -> cstep T l cw = Some cw' -> incl (w_log (cw_w cw')) Lf -> pinvF cw'.
  Proof.
    intros (Hfg & Hbg & HI) H Hincl. unfold cstep in H. destruct l as [i|j|].
    - destruct (nth_error (cw_fg cw) i) as [t|] eqn:En; [|discriminate].
      destruct (Forall2_nth _ _ _ _ _ Hfg En) as (q & Hq & Hok).
      destruct t as [q'|q' p| | |]; try discriminate.
      + cbn in Hok. subst q'.
        destruct (settle (round_trip q) (w_clock (cw_w cw)) []) as [p' sp] eqn:E. injection H as <-. cbn [cw_w cw_fg cw_bg] in *.
        destruct (settle_safeF _ _ _ _ _ _ _ _ (round_trip_safeF (Pl Lf) (VsL Lf) (VsL_nil Lf) q) E) as [Hp' (m & -> & HF)]. cbn [app] in *.
        split; [|split]; cbn [cw_fg cw_bg cw_w].
        * eapply Forall2_replace; [exact Hfg|exact Hq|]. apply fg_state_pokF, Hp'.
        * apply Forall_app. split; [exact Hbg|]. apply settle_spawned_pokF.
          eapply Forall_impl; [|exact HF]. intros b Hb. exists (make_url_key (q_url q)). exact Hb.
        * exact HI.
      + cbn in Hok. destruct Hok as [-> Hsafe].
        destruct (perform None p (cw_w cw)) as [p1 w1] eqn:Ep.
        destruct (settle p1 (w_clock w1) []) as [p2 sp] eqn:E. injection H as <-. cbn [cw_w cw_fg cw_bg] in *.
        destruct (perform_safeF p Lf _ None _ p1 w1 Hsafe HI Ep Hincl) as [Hs1 HI1].
        destruct (settle_safeF _ _ _ _ _ _ _ _ Hs1 E) as [Hp2 (m & -> & HF)]. cbn [app] in *.
        split; [|split]; cbn [cw_fg cw_bg cw_w].
        * eapply Forall2_replace; [exact Hfg|exact Hq|]. apply fg_state_pokF, Hp2.
        * apply Forall_app. split; [exact Hbg|]. apply settle_spawned_pokF.
          eapply Forall_impl; [|exact HF]. intros b Hb. exists (make_url_key (q_url q)). exact Hb.
        * exact HI1.
    - destruct (nth_error (cw_bg cw) j) as [t|] eqn:En; [|discriminate].
      destruct t as [| |p| |]; try discriminate.
      assert (Hroot : pend_okF Lf p).
      { rewrite Forall_forall in Hbg. apply (Hbg (TBg p)). eapply nth_error_In; exact En. }
      destruct Hroot as [u Hsafe].
      destruct (perform (Some T) p (cw_w cw)) as [p1 w1] eqn:Ep.
      destruct (settle p1 (w_clock w1) []) as [p2 sp] eqn:E. injection H as <-. cbn [cw_w cw_fg cw_bg] in *.
      destruct (perform_safeF p Lf _ (Some T) _ p1 w1 Hsafe HI Ep Hincl) as [Hs1 HI1].
      destruct (settle_safeF _ _ _ _ _ _ _ _ Hs1 E) as [Hp2 (m & -> & HF)]. cbn [app] in *.
      split; [|split]; cbn [cw_fg cw_bg cw_w].
      + exact Hfg.
      + apply Forall_app. split.
        * apply Forall_replace; [exact Hbg|]. apply bg_state_pokF. exists u. exact Hp2.
        * apply settle_spawned_pokF. eapply Forall_impl; [|exact HF]. intros b Hb. exists u. exact Hb.
      + exact HI1.
    - injection H as <-. split; [exact Hfg|split; [exact Hbg|exact HI]].
  Qed.

  Lemma pinvF_schedule T sched : forall cw n cw' n', pinvF cw -> run_schedule T sched cw n = (cw', n') ->
    incl (w_log (cw_w cw')) Lf -> pinvF cw'.
  Proof.
    induction sched as [|l r IH]; intros cw n cw' n' Hi H Hincl; cbn [run_schedule] in H.
    - injection H as <- _. exact Hi.
    - destruct (cstep T l cw) as [cw1|] eqn:E.
      + eapply IH; [|exact H|exact Hincl]. eapply pinvF_step; [exact Hi|exact E|].
        destruct (schedule_log _ _ _ _ _ _ H) as [y Hy]. intros x Hx. apply Hincl. rewrite Hy. apply in_or_app. right. exact Hx.
      + injection H as <- _. exact Hi.
  Qed.
End ConcFoot.

(* the invariant is monotone in the log *)
Lemma VsL_mono L L' v : incl L L' -> VsL L v -> VsL L' v.
Proof.
  intros Hi [H|(idx & q & a & b & r & Hin & Hv)]; [left; exact H|right]. exists idx, q, a, b, r. split; [apply Hi, Hin|exact Hv].
Qed.
Lemma pairF_mono L L' u k : incl L L' -> pairF (Pl L) (VsL L) u k -> pairF (Pl L') (VsL L') u k.
Proof.
  intros Hi (q0 & v & m & Hp & Hu & Hv & Hn & Hk). exists q0, v, m.
  split; [eapply Pl_mono; eassumption|split; [exact Hu|split; [eapply VsL_mono; eassumption|split; assumption]]].
Qed.
Lemma InvF_mono L L' s : incl L L' -> InvF (Pl L) (VsL L) s -> InvF (Pl L') (VsL L') s.
Proof.
  intros Hi [I1 I2]. split.
  - intros k e He. destruct (I1 k e He) as (Hv & u & Hp). split.
    + intros v Hin. eapply VsL_mono; [exact Hi|]. apply Hv, Hin.
    + exists u. eapply pairF_mono; eassumption.
  - intros u l Hl. destruct (I2 u l Hl) as ((q0 & Hp & Hu) & Hf & Hn). split; [|split; [|exact Hn]].
    + exists q0. split; [eapply Pl_mono; eassumption|exact Hu].
    + eapply Forall_impl; [|exact Hf]. intros x (r & -> & Hr). exists r. split; [reflexivity|]. eapply pairF_mono; eassumption.
Qed.

(* under every schedule of any number of concurrent calls, from any store satisfying the invariant for the events H0 known
   before: the store satisfies it for the events of the phase and H0 *)
Theorem concurrent_footprint T qs w sched cw n H0 :
  InvF (Pl H0) (VsL H0) (w_store w) ->
  run_schedule T sched {| cw_w := w; cw_fg := map TStart qs; cw_bg := []; cw_trace := [] |} 0 = (cw, n) ->
  InvF (Pl (w_log (cw_w cw) ++ H0)) (VsL (w_log (cw_w cw) ++ H0)) (w_store (cw_w cw)).
Proof.
  intros HI Hrun.
  set (Lf := w_log (cw_w cw) ++ H0).
  assert (HI' : InvF (Pl Lf) (VsL Lf) (w_store w)).
  { eapply InvF_mono; [|exact HI]. intros x Hx. apply in_or_app. right. exact Hx. }
  assert (Hinit : pinvF qs Lf {| cw_w := w; cw_fg := map TStart qs; cw_bg := []; cw_trace := [] |}).
  { split; [|split; [constructor|exact HI']]. cbn. clear. induction qs as [|x l IH]; cbn; constructor; cbn; auto. }
  destruct (pinvF_schedule qs Lf T sched _ _ _ _ Hinit Hrun) as (_ & _ & HIf); [|exact HIf].
  intros x Hx. apply in_or_app. left. exact Hx.
Qed.
