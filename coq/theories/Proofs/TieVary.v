(* TieVary.v — the ranking of VaryHeadersMatch in the model (Vary.ref_le as the order of the sort, Vary.find_match as the scan
   for the best matching reference) is what the translator derives from internal/varymatcher.go of /repo on this run
   (Generated/SrcVary.v): the comparator closure handed to slices.SortFunc, the initial value of `best`, the condition under
   which the loop moves `best`, and the test in the return statement. *)
From HC Require Import Transport.
From HC.Generated Require Import SrcVary.
Open Scope Z_scope.

Lemma time_compare_le a b : (time_compare a b <=? 0) = (a <=? b).
Proof.
  unfold time_compare. destruct (Z.compare_spec a b) as [H|H|H]; symmetry.
  - apply Z.leb_le. lia.
  - apply Z.leb_le. lia.
  - apply Z.leb_gt. lia.
Qed.

(* the order the model sorts by is "the source's comparator says a is not after b" *)
Theorem tie_ref_cmp a b : (src_ref_cmp a b <=? 0) = ref_le a b.
Proof.
  unfold src_ref_cmp, ref_le, ref_class.
  destruct (beq (go_trim (r_vary a)) (bs "*")) eqn:Ea; destruct (beq (go_trim (r_vary b)) (bs "*")) eqn:Eb;
  destruct (beq (go_trim (r_vary a)) (bs "")) eqn:Na; destruct (beq (go_trim (r_vary b)) (bs "")) eqn:Nb;
  change (bs "") with (@nil Z) in *; rewrite ?Na, ?Nb; cbn; try reflexivity; apply time_compare_le.
Qed.

(* the comparator is a three-way comparison: antisymmetric on its sign (what slices.SortFunc requires of it) *)
Theorem src_ref_cmp_antisym a b : src_ref_cmp a b = - src_ref_cmp b a.
Proof.
  unfold src_ref_cmp.
  destruct (beq (go_trim (r_vary a)) (bs "*")); destruct (beq (go_trim (r_vary b)) (bs "*"));
  destruct (beq (go_trim (r_vary a)) (bs "")); destruct (beq (go_trim (r_vary b)) (bs "")); cbn; try reflexivity;
  unfold time_compare; rewrite (Z.compare_antisym (r_recv a) (r_recv b)); destruct (r_recv a ?= r_recv b); reflexivity.
Qed.

(* the scan: the model keeps (index, instant) of the best match so far, the source keeps the index (from -1) and reads
   entries[best].ReceivedAt; one step of the model is one step of the source *)
Definition best_index (best : option (Z * Z)) : Z := match best with Some (i, _) => i | None => src_best_init end.
Definition best_recv (best : option (Z * Z)) : Z := match best with Some (_, t) => t | None => 0 end.

Theorem tie_better (best : option (Z * Z)) (i recv_entry : Z) :
  (forall j t, best = Some (j, t) -> 0 <= j) ->
  src_better true (best_index best) i recv_entry (best_recv best)
  = match best with None => true | Some (_, t) => t <=? recv_entry end.
Proof.
  intros Hj. unfold src_better, best_index, best_recv, src_best_init. destruct best as [[j t]|]; [|reflexivity].
  specialize (Hj j t eq_refl). cbn [andb].
  destruct (j <? 0) eqn:E; [apply Z.ltb_lt in E; lia|]. cbn [orb]. rewrite Z.leb_antisym. reflexivity.
Qed.

Theorem tie_not_better best i recv_entry recv_best : src_better false best i recv_entry recv_best = false.
Proof. reflexivity. Qed.

Theorem tie_found (best : option (Z * Z)) :
  (forall j t, best = Some (j, t) -> 0 <= j) ->
  src_found (best_index best) = match best with Some _ => true | None => false end.
Proof.
  intros Hj. unfold src_found, best_index, src_best_init. destruct best as [[j t]|]; [|reflexivity].
  apply Z.leb_le. exact (Hj j t eq_refl).
Qed.

(* find_match written with the source's step: index from src_best_init, moved where src_better says so *)
Fixpoint src_scan (l : list ref) (h : headers) (i : Z) (best : option (Z * Z)) : option (option Z) :=
  match l with
  | [] => Some (if src_found (best_index best) then Some (best_index best) else None)
  | r :: rest =>
      match ref_matches r h with
      | None => None
      | Some m =>
          src_scan rest h (i + 1)
            (if src_better m (best_index best) i (r_recv r) (best_recv best) then Some (i, r_recv r) else best)
      end
  end.

Theorem tie_find_match l h : forall i best, 0 <= i -> (forall j t, best = Some (j, t) -> 0 <= j) ->
  src_scan l h i best = find_match l h i best.
Proof.
  induction l as [|r rest IH]; intros i best Hi Hb; cbn [src_scan find_match].
  - rewrite (tie_found best Hb). destruct best as [[j t]|]; reflexivity.
  - destruct (ref_matches r h) as [[|]|]; [| |reflexivity].
    + rewrite (tie_better best i (r_recv r) Hb).
      apply IH; [lia|]. intros j t E. destruct best as [[j0 t0]|].
      * destruct (t0 <=? r_recv r); injection E as <- <-; [lia|exact (Hb j0 t0 eq_refl)].
      * injection E as <- <-. lia.
    + rewrite tie_not_better. apply IH; [lia|exact Hb].
Qed.

Theorem tie_vary_headers_match refs h :
  vary_headers_match refs h =
  match src_scan (isort (fun a b => src_ref_cmp a b <=? 0) refs) h 0 None with
  | None => None
  | Some i => Some (isort (fun a b => src_ref_cmp a b <=? 0) refs, i)
  end.
Proof.
  unfold vary_headers_match, sort_refs.
  assert (E : isort (fun a b => src_ref_cmp a b <=? 0) refs = isort ref_le refs).
  { clear. induction refs as [|x l IH]; [reflexivity|]. cbn [isort]. rewrite IH. generalize (isort ref_le l) as s.
    induction s as [|y s IHs]; [reflexivity|]. cbn [insert_sorted]. rewrite tie_ref_cmp, IHs. reflexivity. }
  rewrite E, tie_find_match; [reflexivity|lia|discriminate].
Qed.
