(* WireProofs.v — reading back any message of the grammar gives its parts, whatever bytes the body holds (C05). *)
From HC Require Import CCSyntax Wire.
From HC.Proofs Require Import HeaderProofs SpellProofs.
From Coq Require Import ZifyBool.
Open Scope Z_scope.

Definition no_lf (l : bytes) : Prop := ~ In 10 l.

Lemma read_line_app l rest : no_lf l -> read_line (l ++ 10 :: rest) = Some (l, rest).
Proof.
  induction l as [|c l IH]; intros H; cbn [app read_line]; [reflexivity|].
  destruct (c =? 10) eqn:E; [exfalso; apply H; left; lia|].
  rewrite IH; [reflexivity|]. intros Hi. apply H. right. exact Hi.
Qed.

Lemma strip_cr_snoc l : strip_cr (l ++ [13]) = l.
Proof. unfold strip_cr. rewrite rev_app_distr. cbn. apply rev_involutive. Qed.

Lemma read_line_crlf l rest : no_lf l -> read_line (l ++ crlf ++ rest) = Some (l ++ [13], rest).
Proof.
  intros H. unfold crlf. change (l ++ [13; 10] ++ rest) with (l ++ [13] ++ 10 :: rest). rewrite app_assoc.
  apply read_line_app. intros Hi. apply in_app_or in Hi as [Hi|[Hi|[]]]; [exact (H Hi)|discriminate].
Qed.

Definition line_ok (l : bytes) : Prop := l <> [] /\ no_lf l.

Lemma read_lines_render ls : forall fuel rest acc, Forall line_ok ls -> (List.length ls < fuel)%nat ->
  read_lines fuel (render_lines ls ++ crlf ++ rest) acc = Some (rev acc ++ ls, rest).
Proof.
  induction ls as [|l ls IH]; intros fuel rest acc Hok Hf.
  - destruct fuel as [|f]; [cbn in Hf; lia|]. cbn [render_lines map List.concat app read_lines].
    change (crlf ++ rest) with ([] ++ crlf ++ rest). rewrite read_line_crlf by (intros []).
    cbn [app]. change (strip_cr [13]) with (@nil Z). rewrite app_nil_r. reflexivity.
  - destruct fuel as [|f]; [cbn in Hf; lia|]. inversion Hok as [|? ? [Hne Hlf] Hrest]; subst.
    unfold render_lines. cbn [map List.concat]. fold (render_lines ls). rewrite <- !app_assoc.
    cbn [read_lines]. rewrite read_line_crlf by exact Hlf. rewrite strip_cr_snoc.
    destruct l as [|c l']; [congruence|].
    rewrite IH by (try assumption; cbn in Hf; lia). cbn [rev]. rewrite <- app_assoc. reflexivity.
Qed.

Lemma render_lines_length ls : (List.length ls <= List.length (render_lines ls))%nat.
Proof.
  induction ls as [|l ls IH]; [cbn; lia|]. unfold render_lines in *. cbn [map List.concat]. rewrite !app_length. cbn. lia.
Qed.

(* ---------- numerals ---------- *)
Definition digit_char (base d : Z) : Z := if d <? 10 then 48 + d else 87 + d.

Lemma num_digits_spec base fuel : forall n acc, 2 <= base <= 16 -> 0 <= n -> n < base ^ Z.of_nat fuel -> (0 < fuel)%nat ->
  exists ds, num_digits base fuel n acc = ds ++ acc /\ ds <> [] /\
    (forall a, fold_left (fun x c => x * base + (if c <? 58 then c - 48 else c - 87)) ds a =
               a * base ^ Z.of_nat (List.length ds) + n) /\
    Forall (fun c => (48 <= c <= 57) \/ (97 <= c <= 102 /\ 10 < base)) ds.
Proof.
  induction fuel as [|f IH]; intros n acc Hb Hn Hlt Hf; [lia|].
  cbn [num_digits]. set (d := n mod base).
  assert (Hd : 0 <= d < base) by (apply Z.mod_pos_bound; lia).
  assert (Hdc : (48 <= (if d <? 10 then 48 + d else 87 + d) <= 57) \/ (97 <= (if d <? 10 then 48 + d else 87 + d) <= 102 /\ 10 < base)).
  { destruct (d <? 10) eqn:E; [left; lia|right; lia]. }
  assert (Hval : (if (if d <? 10 then 48 + d else 87 + d) <? 58 then (if d <? 10 then 48 + d else 87 + d) - 48 else (if d <? 10 then 48 + d else 87 + d) - 87) = d).
  { destruct (d <? 10) eqn:E; [replace (48 + d <? 58) with true by lia; lia|replace (87 + d <? 58) with false by lia; lia]. }
  destruct (n <? base) eqn:E.
  - exists [if d <? 10 then 48 + d else 87 + d]. split; [reflexivity|]. split; [discriminate|]. split.
    + intros a. cbn [fold_left List.length]. rewrite Hval. unfold d. rewrite Z.mod_small by lia. change (Z.of_nat 1) with 1. lia.
    + constructor; [exact Hdc|constructor].
  - assert (Hq : 0 <= n / base) by (apply Z.div_pos; lia).
    assert (Hf' : (0 < f)%nat).
    { destruct f; [|lia]. cbn in Hlt. lia. }
    assert (Hlt' : n / base < base ^ Z.of_nat f).
    { apply Z.div_lt_upper_bound; [lia|]. rewrite Nat2Z.inj_succ, Z.pow_succ_r in Hlt by lia. lia. }
    destruct (IH (n / base) ((if d <? 10 then 48 + d else 87 + d) :: acc) Hb Hq Hlt' Hf') as (ds & E1 & Hne & Hfold & Hall).
    exists (ds ++ [if d <? 10 then 48 + d else 87 + d]). split; [rewrite E1, <- app_assoc; reflexivity|].
    split; [destruct ds; discriminate|]. split.
    + intros a. rewrite fold_left_app, Hfold. cbn [fold_left]. rewrite Hval, app_length. cbn [List.length].
      rewrite Nat2Z.inj_add. change (Z.of_nat 1) with 1. rewrite Z.pow_add_r by lia. rewrite Z.pow_1_r.
      pose proof (Z.div_mod n base ltac:(lia)) as Hdm. fold d in Hdm. lia.
    + apply Forall_app. split; [exact Hall|constructor; [exact Hdc|constructor]].
Qed.

Lemma pow_gt n base : 2 <= base -> Z.of_nat n < base ^ Z.of_nat (S n).
Proof.
  intros Hb. induction n as [|n IH].
  - change (Z.of_nat 1) with 1. rewrite Z.pow_1_r. cbn. lia.
  - replace (Z.of_nat (S (S n))) with (Z.succ (Z.of_nat (S n))) by lia.
    rewrite Z.pow_succ_r by lia. replace (Z.of_nat (S n)) with (Z.of_nat n + 1) in * by lia.
    assert (0 < base ^ (Z.of_nat n + 1)) by (apply Z.pow_pos_nonneg; lia). nia.
Qed.

Definition numeral_char (c : Z) : Prop := (48 <= c <= 57) \/ (97 <= c <= 102).

Lemma dec_text_spec n : exists ds, dec_text n = ds /\ ds <> [] /\ Forall (fun c => 48 <= c <= 57) ds /\
  digits_val 0 ds = Z.of_nat n.
Proof.
  unfold dec_text.
  destruct (num_digits_spec 10 (S n) (Z.of_nat n) [] ltac:(lia) ltac:(lia) (pow_gt n 10 ltac:(lia)) ltac:(lia)) as (ds & E & Hne & Hfold & Hall).
  exists ds. rewrite E, app_nil_r. split; [reflexivity|]. split; [exact Hne|].
  assert (Hd : Forall (fun c => 48 <= c <= 57) ds).
  { eapply Forall_impl; [|exact Hall]. intros c [H|[_ H]]; [exact H|lia]. }
  split; [exact Hd|].
  specialize (Hfold 0). rewrite Z.mul_0_l, Z.add_0_l in Hfold. rewrite <- Hfold.
  clear -Hd. generalize 0. induction Hd as [|c ds Hc _ IH]; intros a; [reflexivity|].
  cbn [digits_val fold_left]. replace (c <? 58) with true by lia. apply IH.
Qed.

Lemma parse_dec_text n : parse_dec (dec_text n) = Some (Z.of_nat n).
Proof.
  destruct (dec_text_spec n) as (ds & -> & Hne & Hd & Hv). unfold parse_dec. destruct ds as [|c t]; [congruence|].
  assert (Ha : all_digits (c :: t) = true).
  { unfold all_digits. apply forallb_forall. rewrite Forall_forall in Hd. intros x Hx. specialize (Hd x Hx). unfold is_digit. lia. }
  rewrite Ha, Hv. reflexivity.
Qed.

Lemma hex_text_spec n : exists ds, hex_text n = ds /\ ds <> [] /\ Forall numeral_char ds /\ parse_hex 0 ds = Some (Z.of_nat n).
Proof.
  unfold hex_text.
  destruct (num_digits_spec 16 (S n) (Z.of_nat n) [] ltac:(lia) ltac:(lia) (pow_gt n 16 ltac:(lia)) ltac:(lia)) as (ds & E & Hne & Hfold & Hall).
  exists ds. rewrite E, app_nil_r. split; [reflexivity|]. split; [exact Hne|].
  assert (Hd : Forall numeral_char ds).
  { eapply Forall_impl; [|exact Hall]. intros c [H|[H _]]; [left; exact H|right; exact H]. }
  split; [exact Hd|].
  specialize (Hfold 0). rewrite Z.mul_0_l, Z.add_0_l in Hfold. rewrite <- Hfold.
  clear -Hd. generalize 0. induction Hd as [|c ds Hc _ IH]; intros a; [reflexivity|].
  cbn [parse_hex fold_left]. unfold hex_val_of, is_digit. destruct Hc as [Hc|Hc].
  - replace ((48 <=? c) && (c <=? 57)) with true by lia. replace (c <? 58) with true by lia. apply IH.
  - replace ((48 <=? c) && (c <=? 57)) with false by lia. replace ((97 <=? c) && (c <=? 102)) with true by lia.
    replace (c <? 58) with false by lia. apply IH.
Qed.

Lemma numeral_edge ds : ds <> [] -> Forall numeral_char ds -> edge_ok is_tp_space ds.
Proof.
  intros Hne H. assert (Hs : forall c, numeral_char c -> is_tp_space c = false) by (intros c [Hc|Hc]; unfold is_tp_space; lia).
  split.
  - destruct ds as [|c t]; [exact I|]. inversion H; subst. auto.
  - assert (Hr : Forall numeral_char (rev ds)) by (apply Forall_rev; exact H).
    destruct (rev ds) as [|c t]; [exact I|]. inversion Hr; subst. auto.
Qed.

Lemma cut_absent_gen (sep : Z) s : ~ In sep s -> cut sep s = None.
Proof.
  induction s as [|c s IH]; cbn; [reflexivity|]. intros H.
  destruct (c =? sep) eqn:E; [exfalso; apply H; left; lia|]. rewrite IH; [reflexivity|]. intros Hi. apply H. right. exact Hi.
Qed.

(* ---------- bodies ---------- *)
Lemma take_n_app (a b : bytes) : take_n (Z.of_nat (List.length a)) (a ++ b) = a.
Proof. unfold take_n. rewrite Nat2Z.id, firstn_app, Nat.sub_diag, firstn_all, firstn_O, app_nil_r. reflexivity. Qed.
Lemma drop_n_app (a b : bytes) : drop_n (Z.of_nat (List.length a)) (a ++ b) = b.
Proof. unfold drop_n. rewrite Nat2Z.id, skipn_app, Nat.sub_diag, skipn_all. reflexivity. Qed.

Definition terminator (trailers : list bytes) (rest : bytes) : bytes :=
  bs "0" ++ crlf ++ render_lines trailers ++ crlf ++ rest.

Lemma dechunk_terminator fuel trailers rest : (0 < fuel)%nat -> Forall line_ok trailers ->
  dechunk fuel (terminator trailers rest) = Some ([], rest).
Proof.
  intros Hf Hok. destruct fuel as [|f]; [lia|]. unfold terminator. cbn [dechunk].
  rewrite read_line_crlf by (intros [H|[]]; discriminate). rewrite strip_cr_snoc.
  change (cut 59 (bs "0")) with (@None (bytes * bytes)). change (tp_trim (bs "0")) with (bs "0").
  change (parse_hex 0 (bs "0")) with (Some 0). cbn [Z.eqb].
  rewrite read_lines_render; [reflexivity|exact Hok|].
  rewrite !app_length. pose proof (render_lines_length trailers). lia.
Qed.

Lemma dechunk_one fuel (data : bytes) more : data <> [] ->
  dechunk (S fuel) (hex_text (List.length data) ++ crlf ++ data ++ crlf ++ more) =
  match dechunk fuel more with Some (b, fin) => Some (data ++ b, fin) | None => None end.
Proof.
  intros Hne. destruct (hex_text_spec (List.length data)) as (ds & E & Hdne & Hd & Hv). rewrite E.
  assert (Hlf : no_lf ds).
  { intros Hi. rewrite Forall_forall in Hd. destruct (Hd _ Hi) as [H|H]; lia. }
  cbn [dechunk]. rewrite read_line_crlf by exact Hlf. rewrite strip_cr_snoc.
  assert (Hsemi : ~ In 59 ds).
  { intros Hi. rewrite Forall_forall in Hd. destruct (Hd _ Hi) as [H|H]; lia. }
  rewrite (cut_absent_gen 59 ds Hsemi). rewrite (tp_trim_self ds (numeral_edge ds Hdne Hd)).
  destruct ds as [|d0 dt] eqn:Eds; [congruence|]. rewrite <- Eds in *. rewrite Hv.
  assert (Hpos : (0 < List.length data)%nat) by (destruct data; [congruence|cbn; lia]).
  replace (Z.of_nat (List.length data) =? 0) with false by lia.
  replace (Z.of_nat (List.length (data ++ crlf ++ more)) <? Z.of_nat (List.length data) + 2) with false
    by (rewrite !app_length; cbn [List.length crlf]; lia).
  rewrite drop_n_app, take_n_app. cbn [crlf app Z.eqb Pos.eqb andb].
  destruct ds; [congruence|]. reflexivity.
Qed.

Lemma dechunk_render sizes : forall body fuel trailers rest, Forall line_ok trailers ->
  (List.length body < fuel)%nat ->
  dechunk fuel (render_chunks sizes body ++ terminator trailers rest) = Some (body, rest).
Proof.
  induction sizes as [|n r IH]; intros body fuel trailers rest Hok Hf.
  - destruct body as [|c b].
    + cbn [render_chunks app]. apply dechunk_terminator; [lia|exact Hok].
    + cbn [render_chunks]. destruct fuel as [|f]; [lia|]. rewrite <- !app_assoc.
      rewrite dechunk_one by discriminate. rewrite dechunk_terminator; [rewrite app_nil_r; reflexivity| |exact Hok].
      cbn in Hf. lia.
  - destruct body as [|c b].
    + cbn [render_chunks app]. apply dechunk_terminator; [lia|exact Hok].
    + cbn [render_chunks]. set (body := c :: b) in *.
      set (k := Nat.min (S n) (List.length body)).
      assert (Hk : (1 <= k <= List.length body)%nat) by (subst k body; cbn [List.length]; lia).
      assert (Hlen : List.length (firstn k body) = k) by (apply firstn_length_le; lia).
      destruct fuel as [|f]; [lia|]. rewrite <- !app_assoc. rewrite <- Hlen at 1.
      rewrite dechunk_one by (intros E; rewrite E in Hlen; cbn in Hlen; lia).
      rewrite IH; [rewrite firstn_skipn; reflexivity|exact Hok|].
      rewrite skipn_length. lia.
Qed.

(* ---------- messages ---------- *)
Definition te_name : bytes := bs "transfer-encoding".
Definition cl_name : bytes := bs "content-length".
Definition plain_field (l : bytes) : Prop :=
  line_ok l /\ beq (line_name l) te_name = false /\ beq (line_name l) cl_name = false.

Lemma field_value_none name ls : Forall (fun l => beq (line_name l) name = false) ls -> field_value name ls = None.
Proof. induction 1 as [|l ls H _ IH]; [reflexivity|]. cbn [field_value]. rewrite H. exact IH. Qed.
Lemma field_value_hit name before l after :
  Forall (fun l => beq (line_name l) name = false) before -> beq (line_name l) name = true ->
  field_value name (before ++ l :: after) = Some (line_value l).
Proof.
  induction 1 as [|x before H _ IH]; intros Hl; cbn [app field_value]; [rewrite Hl; reflexivity|]. rewrite H. apply IH, Hl.
Qed.

Ltac compute_bs :=
  repeat match goal with
  | |- context [bs ?s] => let x := eval vm_compute in (bs s) in change (bs s) with x
  end.

Lemma cl_line_name d : line_name (bs "Content-Length: " ++ d) = cl_name.
Proof. unfold line_name, cl_name. compute_bs. cbn [app cut Z.eqb Pos.eqb]. vm_compute. reflexivity. Qed.
Lemma cl_line_value d : d <> [] -> Forall (fun c => 48 <= c <= 57) d -> line_value (bs "Content-Length: " ++ d) = d.
Proof.
  intros Hne Hd. unfold line_value. compute_bs. cbn [app cut Z.eqb Pos.eqb].
  replace (32 :: d) with ([32] ++ d ++ []) by (cbn; rewrite app_nil_r; reflexivity).
  apply (tp_trim_core [32] d []); [reflexivity|reflexivity|].
  apply numeral_edge; [exact Hne|]. eapply Forall_impl; [|exact Hd]. intros c H. left. exact H.
Qed.
Lemma te_line_name : line_name (bs "Transfer-Encoding: chunked") = te_name.
Proof. vm_compute. reflexivity. Qed.
Lemma te_line_value : line_value (bs "Transfer-Encoding: chunked") = bs "chunked".
Proof. vm_compute. reflexivity. Qed.
Lemma close_line_plain : plain_field (bs "Connection: close").
Proof. split; [split; [discriminate|intros H; vm_compute in H; repeat destruct H as [H|H]; try discriminate; exact H]|split; vm_compute; reflexivity]. Qed.

Lemma plain_lines_ok ls : Forall plain_field ls -> Forall line_ok ls.
Proof. intros H. eapply Forall_impl; [|exact H]. intros l Hl. apply Hl. Qed.

Lemma render_chunks_length sizes : forall body, (List.length body <= List.length (render_chunks sizes body))%nat.
Proof.
  induction sizes as [|n r IH]; intros body; destruct body as [|c b]; cbn [render_chunks]; try (cbn; lia).
  - rewrite !app_length. cbn [List.length]. lia.
  - set (body := c :: b). set (k := Nat.min (S n) (List.length body)).
    rewrite !app_length. pose proof (IH (skipn k body)) as H. rewrite skipn_length in H.
    assert (Hk : (k <= List.length body)%nat) by (subst k; lia).
    rewrite firstn_length_le by lia. cbn [List.length crlf]. lia.
Qed.

(* the framing decision of parse_msg *)
Definition body_of (code : Z) (fields : list bytes) (data : bytes) : option bytes :=
  if no_body_code code then Some []
  else
    match field_value (bs "transfer-encoding") fields with
    | Some te =>
        if has_chunked te then
          match dechunk (S (List.length data)) data with
          | Some (b, _) => Some b
          | None => None
          end
        else Some data
    | None =>
        match field_value (bs "content-length") fields with
        | Some cl =>
            match parse_dec cl with
            | Some n => if Z.of_nat (List.length data) <? n then None else Some (take_n n data)
            | None => None
            end
        | None => Some data
        end
    end.

Lemma parse_msg_head sl code fields payload :
  line_ok sl -> status_of_line sl = Some code -> Forall line_ok fields ->
  parse_msg (sl ++ crlf ++ render_lines fields ++ crlf ++ payload) =
  option_map (fun b => {| wm_status_line := sl; wm_status := code; wm_fields := fields; wm_body := b |})
             (body_of code fields payload).
Proof.
  intros Hsl Hcode Hf. unfold parse_msg. rewrite (read_line_crlf sl _ (proj2 Hsl)), strip_cr_snoc, Hcode.
  rewrite read_lines_render; [|exact Hf|rewrite !app_length; pose proof (render_lines_length fields); lia].
  cbn [rev app]. unfold body_of. destruct (no_body_code code); [reflexivity|].
  destruct (field_value (bs "transfer-encoding") fields) as [te|].
  - destruct (has_chunked te); [|reflexivity]. destruct (dechunk _ payload) as [[b fin]|]; reflexivity.
  - destruct (field_value (bs "content-length") fields) as [cl|]; [|reflexivity].
    destruct (parse_dec cl) as [n|]; [|reflexivity]. destruct (_ <? n); reflexivity.
Qed.

Section Msg.
  Variables (sl : bytes) (code : Z) (before after : list bytes).
  Hypothesis Hsl : line_ok sl.
  Hypothesis Hcode : status_of_line sl = Some code.
  Hypothesis Hbody_allowed : no_body_code code = false.
  Hypothesis Hbefore : Forall plain_field before.
  Hypothesis Hafter : Forall plain_field after.

  Lemma names_not (name : bytes) (f : bytes -> Prop) ls :
    (forall l, plain_field l -> beq (line_name l) name = false) -> Forall plain_field ls ->
    Forall (fun l => beq (line_name l) name = false) ls.
  Proof. intros H Hl. eapply Forall_impl; [|exact Hl]. intros l Hp. apply H, Hp. Qed.

  Lemma fields_ok (ff : list Z) : line_ok ff -> Forall line_ok (before ++ ff :: after).
  Proof.
    intros Hff. apply Forall_app. split; [apply plain_lines_ok, Hbefore|]. constructor; [exact Hff|apply plain_lines_ok, Hafter].
  Qed.

  (* Content-Length framing: the body is the next n bytes, whatever they are *)
  Theorem read_length_framed body :
    parse_msg (render_msg sl before after FrLength body) =
    Some {| wm_status_line := sl; wm_status := code;
            wm_fields := before ++ framing_field FrLength body ++ after; wm_body := body |}.
  Proof.
    unfold render_msg, render_body. cbn [framing_field app].
    destruct (dec_text_spec (List.length body)) as (ds & Eds & Hne & Hd & Hv).
    assert (Hff : line_ok (bs "Content-Length: " ++ dec_text (List.length body))).
    { split; [compute_bs; discriminate|]. rewrite Eds. compute_bs. intros Hi.
      apply in_app_or in Hi as [Hi|Hi]; [repeat destruct Hi as [Hi|Hi]; try discriminate; exact Hi|].
      rewrite Forall_forall in Hd. specialize (Hd _ Hi). lia. }
    erewrite parse_msg_head; [|exact Hsl|exact Hcode|exact (fields_ok _ Hff)].
    unfold body_of. rewrite Hbody_allowed.
    fold te_name. rewrite field_value_none.
    2:{ apply Forall_app. split; [eapply Forall_impl; [|exact Hbefore]; intros l Hl; apply Hl|].
        constructor; [rewrite cl_line_name; reflexivity|eapply Forall_impl; [|exact Hafter]; intros l Hl; apply Hl]. }
    fold cl_name. rewrite (field_value_hit cl_name before _ after).
    - rewrite Eds, (cl_line_value ds Hne Hd). rewrite <- Eds, parse_dec_text.
      replace (Z.of_nat (List.length body) <? Z.of_nat (List.length body)) with false by lia.
      rewrite <- (app_nil_r body) at 2. rewrite take_n_app. reflexivity.
    - eapply Forall_impl; [|exact Hbefore]. intros l Hl. apply Hl.
    - rewrite cl_line_name. apply beq_refl.
  Qed.

  (* chunked framing, for every way of cutting the body into chunks and any trailer section *)
  Theorem read_chunked sizes trailers body : Forall line_ok trailers ->
    parse_msg (render_msg sl before after (FrChunked sizes trailers) body) =
    Some {| wm_status_line := sl; wm_status := code;
            wm_fields := before ++ framing_field (FrChunked sizes trailers) body ++ after; wm_body := body |}.
  Proof.
    intros Htr. unfold render_msg, render_body. cbn [framing_field app].
    assert (Hff : line_ok (bs "Transfer-Encoding: chunked")) by (split; [discriminate|intros H; vm_compute in H; repeat destruct H as [H|H]; try discriminate; exact H]).
    erewrite parse_msg_head; [|exact Hsl|exact Hcode|exact (fields_ok _ Hff)].
    unfold body_of. rewrite Hbody_allowed.
    fold te_name. rewrite (field_value_hit te_name before _ after).
    - rewrite te_line_value. change (has_chunked (bs "chunked")) with true. cbv iota.
      assert (Hp : render_chunks sizes body ++ bs "0" ++ crlf ++ render_lines trailers ++ crlf = render_chunks sizes body ++ terminator trailers []).
      { unfold terminator. rewrite app_nil_r. reflexivity. }
      rewrite Hp, dechunk_render; [reflexivity|exact Htr|].
      rewrite app_length. pose proof (render_chunks_length sizes body). lia.
    - eapply Forall_impl; [|exact Hbefore]. intros l Hl. apply Hl.
    - rewrite te_line_name. apply beq_refl.
  Qed.

  (* framing by the end of the data *)
  Theorem read_close_delimited body :
    parse_msg (render_msg sl before after FrClose body) =
    Some {| wm_status_line := sl; wm_status := code;
            wm_fields := before ++ framing_field FrClose body ++ after; wm_body := body |}.
  Proof.
    unfold render_msg, render_body. cbn [framing_field app].
    pose proof close_line_plain as [Hff [Hn1 Hn2]].
    erewrite parse_msg_head; [|exact Hsl|exact Hcode|exact (fields_ok _ Hff)].
    unfold body_of. rewrite Hbody_allowed.
    assert (Hnone : forall name, (forall l, plain_field l -> beq (line_name l) name = false) ->
                    field_value name (before ++ bs "Connection: close" :: after) = None).
    { intros name Hn. apply field_value_none. apply Forall_app. split; [eapply Forall_impl; [|exact Hbefore]; intros l Hl; apply Hn, Hl|].
      constructor; [apply Hn, close_line_plain|eapply Forall_impl; [|exact Hafter]; intros l Hl; apply Hn, Hl]. }
    fold te_name. rewrite (Hnone te_name) by (intros l Hl; apply Hl).
    fold cl_name. rewrite (Hnone cl_name) by (intros l Hl; apply Hl). reflexivity.
  Qed.
End Msg.

(* a status that allows no body: whatever follows the head, the body is empty *)
Theorem read_bodiless sl code fields payload :
  line_ok sl -> status_of_line sl = Some code -> Forall line_ok fields -> no_body_code code = true ->
  parse_msg (sl ++ crlf ++ render_lines fields ++ crlf ++ payload) =
  Some {| wm_status_line := sl; wm_status := code; wm_fields := fields; wm_body := [] |}.
Proof.
  intros Hsl Hc Hf Hn. rewrite (parse_msg_head sl code fields payload Hsl Hc Hf). unfold body_of. rewrite Hn. reflexivity.
Qed.

(* ---------- the metadata line ---------- *)
Lemma split_on_none (sep : Z) x : ~ In sep x -> split_on sep x = [x].
Proof.
  induction x as [|c x IH]; intros H; [reflexivity|]. cbn [split_on].
  destruct (c =? sep) eqn:E; [exfalso; apply H; left; lia|]. rewrite IH; [reflexivity|]. intros Hi. apply H. right. exact Hi.
Qed.
Lemma split_on_app (sep : Z) x r : ~ In sep x -> split_on sep (x ++ sep :: r) = x :: split_on sep r.
Proof.
  induction x as [|c x IH]; intros H.
  - cbn [app split_on]. rewrite Z.eqb_refl. reflexivity.
  - cbn [app split_on]. destruct (c =? sep) eqn:E; [exfalso; apply H; left; lia|].
    rewrite IH; [reflexivity|]. intros Hi. apply H. right. exact Hi.
Qed.

Theorem read_entry id req_at recv_at msg :
  ~ In 9 id -> ~ In 9 req_at -> ~ In 9 recv_at -> no_lf id -> no_lf req_at -> no_lf recv_at ->
  edge_ok is_go_space (id ++ [9] ++ req_at ++ [9] ++ recv_at) ->
  parse_entry (render_entry id req_at recv_at msg) =
  option_map (fun m => {| we_id := id; we_req_at := req_at; we_recv_at := recv_at; we_msg := m |}) (parse_msg msg).
Proof.
  intros T1 T2 T3 L1 L2 L3 He. unfold render_entry, parse_entry.
  replace (id ++ [9] ++ req_at ++ [9] ++ recv_at ++ [10] ++ msg) with ((id ++ [9] ++ req_at ++ [9] ++ recv_at) ++ 10 :: msg)
    by (rewrite <- !app_assoc; reflexivity).
  rewrite read_line_app.
  2:{ intros Hi. repeat (apply in_app_or in Hi as [Hi|Hi]); try (destruct Hi as [Hi|[]]; discriminate); auto. }
  assert (Htrim : go_trim (id ++ [9] ++ req_at ++ [9] ++ recv_at) = id ++ [9] ++ req_at ++ [9] ++ recv_at).
  { unfold go_trim. pose proof (trim_with_core is_go_space [] _ [] eq_refl eq_refl He) as Ht.
    cbn [app] in Ht. rewrite app_nil_r in Ht. exact Ht. }
  rewrite Htrim. cbn [app]. rewrite (split_on_app 9 id _ T1), (split_on_app 9 req_at _ T2), (split_on_none 9 recv_at T3).
  destruct (parse_msg msg); reflexivity.
Qed.
