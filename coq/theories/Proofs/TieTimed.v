(* TieTimed.v — round_trip_timed of the model (a clock reading, the origin call, a clock reading, the Date repair of a reply
   that is a response) is the roundTripTimed the translator derives from roundtripper.go of /repo on this run. *)
From HC Require Import Transport.
From HC.Generated Require Import SrcTimed.
Open Scope Z_scope.

Theorem tie_round_trip_timed {A} q (c : origin_reply -> Z -> Z -> prog A) : src_round_trip_timed q c = round_trip_timed q c.
Proof. reflexivity. Qed.
