(* StoreProofs2.v — shape of file paths; the tree model refines a map (C14). *)
From HC Require Import Store.
From HC.Proofs Require Import HeaderProofs StoreProofs1.
From Coq Require Import ZifyBool.
Open Scope Z_scope.

(* a component that names a directory: 47 base64 characters and the marker *)
Definition dir_comp (c : bytes) : Prop := List.length c = 48%nat /\ last c 0 = dir_marker.
(* a component that names a file: the marker alone (empty key) or a non-empty marker-free string *)
Definition file_comp (c : bytes) : Prop := c = [dir_marker] \/ (c <> [] /\ Forall (fun x => x <> dir_marker) c).

Lemma last_in (c : bytes) d : c <> [] -> In (last c d) c.
Proof.
  induction c as [|x c IH]; intros H; [congruence|].
  destruct c as [|y c']; [left; reflexivity|]. right. apply IH. discriminate.
Qed.

Lemma dir_not_file c : dir_comp c -> ~ file_comp c.
Proof.
  intros [Hl Hm] [E|[Hne Hf]].
  - subst. cbn in Hl. lia.
  - assert (In (last c 0) c) by (apply last_in; exact Hne).
    rewrite Forall_forall in Hf. apply (Hf _ H). exact Hm.
Qed.

(* paths of directories and of files *)
Definition dir_path (p : path) : Prop := p <> [] /\ Forall dir_comp p.
Definition file_path_shape (p : path) : Prop := exists ds f, p = ds ++ [f] /\ Forall dir_comp ds /\ file_comp f.

Lemma dir_file_disjoint p : dir_path p -> ~ file_path_shape p.
Proof.
  intros [Hne Hd] (ds & f & E & _ & Hf). subst p.
  rewrite Forall_app in Hd. destruct Hd as [_ Hd]. inversion Hd; subst.
  eapply dir_not_file; eauto.
Qed.

Lemma firstn_In {A} n (l : list A) x : In x (firstn n l) -> In x l.
Proof. intros H. rewrite <- (firstn_skipn n l). apply in_or_app; left; exact H. Qed.
Lemma skipn_In {A} n (l : list A) x : In x (skipn n l) -> In x l.
Proof. intros H. rewrite <- (firstn_skipn n l). apply in_or_app; right; exact H. Qed.

(* chunks: every chunk but the last has n elements, the last has 1..n *)
Lemma chunks_fuel_shape n : (0 < n)%nat -> forall fuel s, (List.length s < fuel)%nat -> s <> [] ->
  exists ds f, chunks_fuel fuel n s = ds ++ [f] /\ Forall (fun c => List.length c = n) ds /\
               f <> [] /\ (List.length f <= n)%nat /\ (forall c, In c (ds ++ [f]) -> incl c s).
Proof.
  intros Hn. induction fuel as [|fuel IH]; intros s Hl Hne; [lia|].
  cbn [chunks_fuel]. destruct s as [|x s]; [congruence|].
  destruct (skipn n (x :: s)) as [|y r] eqn:Es.
  - exists [], (firstn n (x :: s)). destruct fuel; cbn [chunks_fuel app].
    + split; [reflexivity|]. split; [constructor|]. split.
      * destruct n; [lia|]. cbn. discriminate.
      * split; [rewrite firstn_length; lia|]. intros c [Hc|[]]; subst. intros z Hz. eapply firstn_In; exact Hz.
    + split; [reflexivity|]. split; [constructor|]. split.
      * destruct n; [lia|]. cbn. discriminate.
      * split; [rewrite firstn_length; lia|]. intros c [Hc|[]]; subst. intros z Hz. eapply firstn_In; exact Hz.
  - assert (Hlen : (List.length (y :: r) < fuel)%nat).
    { rewrite <- Es, skipn_length. cbn [List.length] in *. lia. }
    destruct (IH (y :: r) Hlen ltac:(discriminate)) as (ds & f & E & Hds & Hf & Hfl & Hin).
    exists (firstn n (x :: s) :: ds), f. rewrite E. split; [reflexivity|]. split.
    + constructor; [|exact Hds]. rewrite firstn_length.
      assert (n < List.length (x :: s))%nat.
      { destruct (Nat.le_gt_cases (List.length (x :: s)) n) as [Hle|Hgt]; [|exact Hgt].
        rewrite skipn_all2 in Es by exact Hle. discriminate. }
      lia.
    + split; [exact Hf|]. split; [exact Hfl|].
      intros c [Hc|Hc]; [subst; intros z Hz; eapply firstn_In; exact Hz|].
      intros z Hz. specialize (Hin c Hc z Hz). rewrite <- Es in Hin. eapply skipn_In; exact Hin.
Qed.

Lemma mark_dirs_app ds f : mark_dirs (ds ++ [f]) = map (fun c => c ++ [dir_marker]) ds ++ [f].
Proof.
  induction ds as [|d ds IH]; [reflexivity|].
  cbn [app map]. destruct (ds ++ [f]) as [|y r] eqn:E; [destruct ds; discriminate|].
  change (mark_dirs (d :: y :: r)) with ((d ++ [dir_marker]) :: mark_dirs (y :: r)). rewrite IH. reflexivity.
Qed.

Lemma last_app_single (c : bytes) x d : last (c ++ [x]) d = x.
Proof. induction c as [|y c IH]; [reflexivity|]. cbn [app]. destruct (c ++ [x]) eqn:E; [destruct c; discriminate|]. exact IH. Qed.

(* every key's path is a (possibly empty) chain of directory components followed by a file component *)
Theorem file_path_has_shape k : bytes_ok k -> file_path_shape (file_path k).
Proof.
  intros Hk. unfold file_path. pose proof (b64_encode_no_marker k Hk) as Hnm.
  destruct (b64_encode k) as [|c enc] eqn:E.
  - exists [], [dir_marker]. split; [reflexivity|]. split; [constructor|left; reflexivity].
  - rewrite <- E in *. destruct (List.length (b64_encode k) <=? 255)%nat.
    + exists [], (b64_encode k). split; [reflexivity|]. split; [constructor|]. right. split; [rewrite E; discriminate|exact Hnm].
    + unfold chunks.
      destruct (chunks_fuel_shape fragment_step ltac:(unfold fragment_step; lia) (S (List.length (b64_encode k))) (b64_encode k))
        as (ds & f & Ec & Hds & Hf & Hfl & Hin); [lia|rewrite E; discriminate|].
      rewrite Ec, mark_dirs_app.
      exists (map (fun c0 => c0 ++ [dir_marker]) ds), f. split; [reflexivity|]. split.
      * rewrite Forall_map. eapply Forall_impl; [|exact Hds]. intros a Ha. split.
        -- rewrite app_length, Ha. reflexivity.
        -- apply last_app_single.
      * right. split; [exact Hf|]. rewrite Forall_forall in *. intros x Hx. apply Hnm.
        apply (Hin f); [apply in_or_app; right; left; reflexivity|exact Hx].
Qed.

(* consequences used by the tree model *)
Lemma prefixes_shape p : forall q, In q (prefixes p) -> exists rest, rest <> [] /\ p = q ++ rest /\ q <> [].
Proof.
  induction p as [|x p IH]; intros q Hq; [destruct Hq|].
  destruct p as [|y r]; [destruct Hq|].
  change (prefixes (x :: y :: r)) with ([x] :: map (cons x) (prefixes (y :: r))) in Hq.
  destruct Hq as [Hq|Hq].
  - subst. exists (y :: r). split; [discriminate|]. split; [reflexivity|discriminate].
  - apply in_map_iff in Hq as (q' & Eq & Hq'). subst q.
    destruct (IH q' Hq') as (rest & Hr & Ep & Hne). exists rest. split; [exact Hr|]. split; [rewrite Ep; reflexivity|discriminate].
Qed.

Lemma app_last_eq {A} (a b : list A) x y : a ++ [x] = b ++ [y] -> a = b /\ x = y.
Proof. intros H. apply app_inj_tail in H. exact H. Qed.

(* a proper prefix of a key's path is a directory path *)
Lemma prefix_is_dir_path k q : bytes_ok k -> In q (prefixes (file_path k)) -> dir_path q.
Proof.
  intros Hk Hq. destruct (file_path_has_shape k Hk) as (ds & f & E & Hds & Hf).
  destruct (prefixes_shape _ _ Hq) as (rest & Hr & Ep & Hne).
  split; [exact Hne|].
  (* q ++ rest = ds ++ [f] with rest non-empty: q is a prefix of ds *)
  rewrite E in Ep.
  assert (exists rest', rest = rest' ++ [f] /\ ds = q ++ rest').
  { destruct (exists_last Hr) as (rest' & l & Er). subst rest. rewrite app_assoc in Ep.
    apply app_last_eq in Ep as [E1 E2]. subst l. exists rest'. split; [reflexivity|exact E1]. }
  destruct H as (rest' & _ & Eds). subst ds. rewrite Forall_app in Hds. tauto.
Qed.

Lemma dir_path_not_file_path k q : bytes_ok k -> dir_path q -> q <> file_path k.
Proof. intros Hk Hd E. subst. eapply dir_file_disjoint; [exact Hd|apply file_path_has_shape; exact Hk]. Qed.
