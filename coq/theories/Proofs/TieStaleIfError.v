(* TieStaleIfError.v — can_stale_on_error of the model is the CanStaleOnError the translator derives from
   internal/cacheabilityevaluator.go of /repo on this run (Generated/SrcStaleIfError.v). *)
From HC Require Import Transport.
From HC.Generated Require Import SrcStaleIfError.
Open Scope Z_scope.

Lemma tie_can_stale_on_error_loop f now sies : src_can_stale_on_error_loop f sies now = can_stale_on_error f sies now.
Proof.
  unfold can_stale_on_error. induction sies as [|[dur|] sies IH]; cbn [src_can_stale_on_error_loop existsb]; [reflexivity| |exact IH].
  cbv zeta. destruct (_ <? _); [reflexivity|exact IH].
Qed.

Theorem tie_can_stale_on_error f sies now : src_can_stale_on_error f sies now = can_stale_on_error f sies now.
Proof.
  unfold src_can_stale_on_error. destruct sies as [|s sies]; [reflexivity|].
  replace (Z.of_nat (List.length (s :: sies)) =? 0) with false; [apply tie_can_stale_on_error_loop|].
  symmetry. apply Z.eqb_neq. cbn [List.length]. rewrite Nat2Z.inj_succ. pose proof (Nat2Z.is_nonneg (List.length sies)). intros E.
  rewrite <- Z.add_1_r in E. apply (Z.lt_irrefl 0). rewrite <- E at 2. apply Z.lt_succ_r in H. rewrite Z.add_1_r. exact H.
Qed.
