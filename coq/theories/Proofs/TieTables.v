(* TieTables.v — tables and constants of the model are those of the Go source of /repo on this run
   (Generated/SrcTables.v, written by /verif/translate). *)
From HC Require Import Transport Store.
From HC.Generated Require Import SrcTables.
Open Scope Z_scope.

Lemma tie_is_non_error_status s : src_is_non_error_status s = is_non_error_status s.
Proof. reflexivity. Qed.

Lemma tie_is_unsafe_method m : src_is_unsafe_method m = is_unsafe_method m.
Proof.
  unfold src_is_unsafe_method, is_unsafe_method, in_names, safe_methods. cbn [existsb].
  repeat match goal with |- context [beq m ?x] => destruct (beq m x); [reflexivity|] end. reflexivity.
Qed.

Lemma tie_hop_by_hop_fixed : src_hop_by_hop_fixed = hop_by_hop_fixed.
Proof. reflexivity. Qed.
Lemma tie_location_headers : src_location_headers = location_headers.
Proof. reflexivity. Qed.
Lemma tie_default_swr_timeout : src_default_swr_timeout = default_swr_timeout.
Proof. reflexivity. Qed.
Lemma tie_max_delta_seconds : src_max_delta_seconds = max_delta_seconds.
Proof. reflexivity. Qed.
Lemma tie_max_duration : src_max_duration = max64.
Proof. reflexivity. Qed.
Lemma tie_status_header : src_status_header = status_header /\ src_from_cache_header = from_cache_header.
Proof. split; reflexivity. Qed.
(* file-name fragments: fragmentSize characters, the last of them the directory marker *)
Lemma tie_fragments : src_fragment_size = Z.of_nat fragment_step + 1 /\ src_dir_marker = [dir_marker].
Proof. split; reflexivity. Qed.
(* CacheStatus values: (Value, Legacy); Legacy "1" exactly for the statuses served from the cache *)
Lemma tie_cache_status :
  src_CacheStatusHit = (status_value HIT, if status_legacy HIT then bs "1" else []) /\
  src_CacheStatusMiss = (status_value MISS, if status_legacy MISS then bs "1" else []) /\
  src_CacheStatusStale = (status_value STALE, if status_legacy STALE then bs "1" else []) /\
  src_CacheStatusRevalidated = (status_value REVALIDATED, if status_legacy REVALIDATED then bs "1" else []) /\
  src_CacheStatusBypass = (status_value BYPASS, if status_legacy BYPASS then bs "1" else []).
Proof. repeat split; reflexivity. Qed.
