(* SpellProofs.v — parsing any spelling of a Cache-Control field yields its meaning (C12). *)
From HC Require Import CCSyntax.
From HC.Proofs Require Import HeaderProofs.
From Coq Require Import ZifyBool.
Open Scope Z_scope.

(* ---------- character facts ---------- *)
Lemma tchar_not_space c : is_tchar c = true -> is_tp_space c = false.
Proof.
  intros H. destruct (is_tp_space c) eqn:E; [|reflexivity]. exfalso.
  unfold is_tp_space in E.
  assert (C : c = 32 \/ c = 9 \/ c = 10 \/ c = 13) by lia.
  destruct C as [->|[->|[->| ->]]]; vm_compute in H; discriminate.
Qed.
Lemma tchar_plain c : is_tchar c = true -> c <> 92 /\ c <> 34 /\ c <> 44 /\ c <> 61.
Proof.
  intros H. repeat split; intros ->; vm_compute in H; discriminate.
Qed.
Lemma ows_space c : is_ows c = true -> is_tp_space c = true.
Proof. unfold is_ows, is_tp_space. lia. Qed.
Lemma ows_plain c : is_ows c = true -> c <> 92 /\ c <> 34 /\ c <> 44.
Proof. unfold is_ows. lia. Qed.
Lemma qdtext_plain c : valid_qdtext c = true -> c <> 92 /\ c <> 34.
Proof. unfold valid_qdtext. lia. Qed.

(* ---------- trimming ---------- *)
Lemma drop_while_all f s r : forallb f s = true -> drop_while f (s ++ r) = drop_while f r.
Proof.
  induction s as [|c s IH]; cbn; [reflexivity|]. intros H. apply Bool.andb_true_iff in H as [H1 H2].
  rewrite H1. apply IH. exact H2.
Qed.
Lemma forallb_rev {A} (f : A -> bool) l : forallb f (rev l) = forallb f l.
Proof.
  induction l as [|x l IH]; cbn; [reflexivity|]. rewrite forallb_app, IH. cbn. rewrite Bool.andb_true_r. apply Bool.andb_comm.
Qed.

Definition edge_ok (f : Z -> bool) (s : bytes) : Prop :=
  match s with [] => True | c :: _ => f c = false end /\
  match rev s with [] => True | c :: _ => f c = false end.

Lemma trim_with_core f pre s post :
  forallb f pre = true -> forallb f post = true -> edge_ok f s -> trim_with f (pre ++ s ++ post) = s.
Proof.
  intros Hpre Hpost [Hh Hl]. unfold trim_with. rewrite drop_while_all by exact Hpre.
  destruct s as [|c s].
  - cbn [app]. replace post with (post ++ []) by apply app_nil_r. rewrite drop_while_all by exact Hpost. reflexivity.
  - cbn [app drop_while]. rewrite Hh.
    replace (c :: s ++ post) with ((c :: s) ++ post) by reflexivity.
    rewrite rev_app_distr. rewrite drop_while_all by (rewrite forallb_rev; exact Hpost).
    destruct (rev (c :: s)) as [|l t] eqn:E.
    + apply (f_equal (@List.length Z)) in E. rewrite rev_length in E. discriminate.
    + cbn [drop_while]. rewrite Hl. rewrite <- E. apply rev_involutive.
Qed.

Lemma tp_trim_core pre s post :
  forallb is_ows pre = true -> forallb is_ows post = true -> edge_ok is_tp_space s -> tp_trim (pre ++ s ++ post) = s.
Proof.
  intros H1 H2 H3. apply trim_with_core; [| |exact H3].
  - rewrite forallb_forall in *. intros x Hx. apply ows_space, H1, Hx.
  - rewrite forallb_forall in *. intros x Hx. apply ows_space, H2, Hx.
Qed.
Lemma tp_trim_self s : edge_ok is_tp_space s -> tp_trim s = s.
Proof.
  intros H. rewrite <- (tp_trim_core [] s []) at 2; [|reflexivity|reflexivity|exact H]. cbn [app]. rewrite app_nil_r. reflexivity.
Qed.
Lemma tp_trim_ows ws : forallb is_ows ws = true -> tp_trim ws = [].
Proof.
  intros H. rewrite <- (tp_trim_core ws [] []); [|exact H|reflexivity|split; exact I]. cbn [app]. rewrite app_nil_r. reflexivity.
Qed.

(* ---------- the comma splitter ---------- *)
Definition csv_run (st : csv_state) (s : bytes) : csv_state := fold_left csv_step s st.

(* the quote / escape flags after a string; [None] when it holds a comma outside quotes *)
Fixpoint scan (inq esc : bool) (s : bytes) : option (bool * bool) :=
  match s with
  | [] => Some (inq, esc)
  | c :: r =>
      if esc then scan inq false r
      else if c =? 92 then scan inq true r
      else if c =? 34 then scan (negb inq) false r
      else if (c =? 44) && negb inq then None
      else scan inq false r
  end.

Lemma csv_scan s : forall st i e, scan (cs_inq st) (cs_esc st) s = Some (i, e) ->
  csv_run st s = {| cs_part := rev s ++ cs_part st; cs_inq := i; cs_esc := e; cs_out := cs_out st |}.
Proof.
  induction s as [|c s IH]; intros st i e H.
  - cbn in H. injection H as <- <-. destruct st; reflexivity.
  - cbn [scan] in H. unfold csv_run. cbn [fold_left]. fold (csv_run (csv_step st c) s).
    unfold csv_step.
    destruct (cs_esc st) eqn:Ee.
    + rewrite (IH _ i e) by (cbn; exact H). cbn. rewrite <- app_assoc. reflexivity.
    + destruct (c =? 92) eqn:E1.
      * rewrite (IH _ i e) by (cbn; exact H). cbn. rewrite <- app_assoc. reflexivity.
      * destruct (c =? 34) eqn:E2.
        -- rewrite (IH _ i e) by (cbn; exact H). cbn. rewrite <- app_assoc. reflexivity.
        -- destruct ((c =? 44) && negb (cs_inq st)) eqn:E3; [discriminate|].
           rewrite (IH _ i e) by (cbn; exact H). cbn. rewrite <- app_assoc. reflexivity.
Qed.

Lemma scan_app s1 : forall s2 i e, scan i e (s1 ++ s2) =
  match scan i e s1 with Some (i', e') => scan i' e' s2 | None => None end.
Proof.
  induction s1 as [|c s1 IH]; intros s2 i e; cbn; [reflexivity|].
  destruct e; [apply IH|]. destruct (c =? 92); [apply IH|]. destruct (c =? 34); [apply IH|].
  destruct ((c =? 44) && negb i); [reflexivity|apply IH].
Qed.

Definition plain (c : Z) : Prop := c <> 92 /\ c <> 34 /\ c <> 44.
Lemma scan_plain s i : Forall plain s -> scan i false s = Some (i, false).
Proof.
  induction 1 as [|c s [H1 [H2 H3]] _ IH]; cbn; [reflexivity|].
  replace (c =? 92) with false by lia. replace (c =? 34) with false by lia. replace (c =? 44) with false by lia.
  cbn. exact IH.
Qed.

Lemma scan_quote_body a : forall m, quote_ok a m = true -> scan true false (quote_body a m) = Some (true, false).
Proof.
  induction a as [|c a IH]; intros m H; cbn; [reflexivity|].
  cbn in H. apply Bool.andb_true_iff in H as [H1 H2].
  destruct (fst (mask_next m)) eqn:Em; cbn.
  - apply IH. exact H2.
  - cbn in H1. apply qdtext_plain in H1 as [Ha Hb].
    replace (c =? 92) with false by lia. replace (c =? 34) with false by lia.
    rewrite Bool.andb_false_r. apply IH. exact H2.
Qed.

Lemma Forall_plain_tchar s : forallb is_tchar s = true -> Forall plain s.
Proof.
  rewrite forallb_forall. intros H. apply Forall_forall. intros c Hc. destruct (tchar_plain c (H c Hc)) as [A [B [C _]]]. repeat split; assumption.
Qed.
Lemma Forall_plain_ows s : forallb is_ows s = true -> Forall plain s.
Proof.
  rewrite forallb_forall. intros H. apply Forall_forall. intros c Hc. destruct (ows_plain c (H c Hc)) as [A [B C]]. repeat split; assumption.
Qed.

Lemma scan_render_arg f a : form_ok f a = true -> scan false false (render_arg f a) = Some (false, false).
Proof.
  destruct f as [| |m]; cbn [render_arg form_ok]; intros H.
  - reflexivity.
  - apply scan_plain. constructor; [repeat split; lia|apply Forall_plain_tchar, H].
  - change (61 :: 34 :: quote_body a m ++ [34]) with ([61; 34] ++ quote_body a m ++ [34]).
    rewrite scan_app. cbn. rewrite scan_app, scan_quote_body by exact H. reflexivity.
Qed.

Lemma spell_ok_inv d s : spell_ok d s = true ->
  dn d <> [] /\ forallb is_tchar (s_name s) = true /\ lower (s_name s) = dn d /\
  form_ok (s_form s) (da d) = true /\ forallb is_ows (s_pre s) = true /\ forallb is_ows (s_post s) = true.
Proof.
  unfold spell_ok. intros H. repeat (apply Bool.andb_true_iff in H as [H ?]).
  repeat split; try assumption.
  - intros E. rewrite E in H. discriminate.
  - apply beq_eq. assumption.
Qed.

Lemma scan_elem e : elem_ok e = true -> scan false false (render_elem e) = Some (false, false).
Proof.
  destruct e as [d s|ws]; cbn [elem_ok render_elem]; intros H.
  - apply spell_ok_inv in H as [_ [Hn [_ [Hf [Hp Hq]]]]]. unfold core.
    rewrite scan_app, (scan_plain _ false) by (apply Forall_plain_ows, Hp).
    rewrite <- app_assoc, scan_app, (scan_plain _ false) by (apply Forall_plain_tchar, Hn).
    rewrite scan_app, scan_render_arg by exact Hf. apply scan_plain, Forall_plain_ows, Hq.
  - apply scan_plain, Forall_plain_ows, H.
Qed.

Definition nonempty_parts (ps : list bytes) : list bytes :=
  filter (fun p => negb (beq p [])) ps.

Lemma csv_flush_eq st : csv_flush st = nonempty_parts [tp_trim (rev (cs_part st))] ++ cs_out st.
Proof. unfold csv_flush, nonempty_parts. cbn. destruct (tp_trim (rev (cs_part st))); reflexivity. Qed.

Lemma csv_join ps : forall p st,
  cs_inq st = false -> cs_esc st = false ->
  Forall (fun p => scan false false p = Some (false, false)) (p :: ps) ->
  csv_flush (csv_run st (join [44] (p :: ps))) =
  rev (nonempty_parts (map tp_trim ((rev (cs_part st) ++ p) :: ps))) ++ cs_out st.
Proof.
  induction ps as [|q ps IH]; intros p st Hi He Hall.
  - cbn [join]. inversion Hall as [|? ? Hp _]; subst.
    rewrite (csv_scan p st false false) by (rewrite Hi, He; exact Hp).
    rewrite csv_flush_eq. cbn [cs_part cs_out map]. rewrite rev_app_distr, rev_involutive.
    unfold nonempty_parts. cbn. destruct (negb (beq (tp_trim (rev (cs_part st) ++ p)) [])); reflexivity.
  - inversion Hall as [|? ? Hp Hrest]; subst.
    change (join [44] (p :: q :: ps)) with (p ++ [44] ++ join [44] (q :: ps)).
    unfold csv_run. rewrite fold_left_app. fold (csv_run st p).
    rewrite (csv_scan p st false false) by (rewrite Hi, He; exact Hp).
    cbn [app fold_left]. unfold csv_step at 2. cbn [cs_esc cs_inq cs_part cs_out].
    replace (44 =? 92) with false by reflexivity. replace (44 =? 34) with false by reflexivity. cbn [Z.eqb andb negb].
    match goal with |- csv_flush (fold_left csv_step _ ?st2) = _ => fold (csv_run st2 (join [44] (q :: ps))); rewrite (IH q st2) by (try reflexivity; exact Hrest) end.
    cbn [cs_part cs_out rev app]. rewrite csv_flush_eq. cbn [cs_part cs_out].
    rewrite rev_app_distr, rev_involutive. cbn [map]. unfold nonempty_parts. cbn [filter].
    destruct (negb (beq (tp_trim (rev (cs_part st) ++ p)) [])); cbn [rev app]; rewrite <- ?app_assoc; reflexivity.
Qed.

Lemma trimmed_csv_join ps :
  Forall (fun p => scan false false p = Some (false, false)) ps ->
  trimmed_csv (join [44] ps) = nonempty_parts (map tp_trim ps).
Proof.
  intros H. destruct ps as [|p ps]; [reflexivity|].
  unfold trimmed_csv. fold (csv_run csv_init (join [44] (p :: ps))).
  rewrite (csv_join ps p csv_init) by (try reflexivity; exact H).
  cbn [cs_part cs_out csv_init rev app]. rewrite app_nil_r, rev_involutive. reflexivity.
Qed.

(* ---------- one element ---------- *)
Lemma hd_tchar_edge s r : s <> [] -> forallb is_tchar s = true ->
  match s ++ r with [] => True | c :: _ => is_tp_space c = false end.
Proof.
  destruct s as [|c s]; [congruence|]. cbn. intros _ H. apply Bool.andb_true_iff in H as [H _]. apply tchar_not_space, H.
Qed.
Lemma last_tchar_edge s : forallb is_tchar s = true ->
  match rev s with [] => True | c :: _ => is_tp_space c = false end.
Proof.
  intros H. rewrite <- forallb_rev in H. destruct (rev s) as [|c t]; [exact I|].
  cbn in H. apply Bool.andb_true_iff in H as [H _]. apply tchar_not_space, H.
Qed.

Lemma edge_core d s : spell_ok d s = true -> edge_ok is_tp_space (core d s).
Proof.
  intros H. apply spell_ok_inv in H as [Hne [Hn [Hl [Hf _]]]].
  assert (Hs : s_name s <> []).
  { intros E. rewrite E in Hl. cbn in Hl. congruence. }
  unfold core. split; [apply hd_tchar_edge; assumption|].
  rewrite rev_app_distr. destruct (s_form s) as [| |m]; cbn [render_arg form_ok] in *.
  - cbn [rev app]. apply last_tchar_edge, Hn.
  - cbn [rev]. rewrite <- app_assoc.
    pose proof (last_tchar_edge _ Hf) as Ha. destruct (rev (da d)) as [|c t]; cbn [app]; [reflexivity|exact Ha].
  - cbn [rev]. rewrite rev_app_distr. cbn [rev app]. reflexivity.
Qed.

Lemma tp_trim_elem e : elem_ok e = true ->
  tp_trim (render_elem e) = match e with EDir d s => core d s | EEmpty _ => [] end.
Proof.
  destruct e as [d s|ws]; cbn [elem_ok render_elem]; intros H.
  - pose proof (edge_core d s H) as He. apply spell_ok_inv in H as [_ [_ [_ [_ [Hp Hq]]]]].
    apply tp_trim_core; assumption.
  - apply tp_trim_ows, H.
Qed.

Lemma core_nonempty d s : spell_ok d s = true -> core d s <> [].
Proof.
  intros H. apply spell_ok_inv in H as [Hne [_ [Hl _]]]. unfold core. intros E.
  apply app_eq_nil in E as [E _]. rewrite E in Hl. cbn in Hl. congruence.
Qed.

Fixpoint cores (es : list element) : list bytes :=
  match es with
  | [] => []
  | EDir d s :: r => core d s :: cores r
  | EEmpty _ :: r => cores r
  end.

Lemma parts_of_elems es : forallb elem_ok es = true ->
  trimmed_csv (join [44] (map render_elem es)) = cores es.
Proof.
  intros H. rewrite trimmed_csv_join.
  - induction es as [|e es IH]; [reflexivity|]. cbn [forallb] in H. apply Bool.andb_true_iff in H as [He Hes].
    cbn [map]. unfold nonempty_parts. cbn [filter]. rewrite (tp_trim_elem e He).
    destruct e as [d s|ws]; cbn [cores].
    + destruct (core d s) eqn:E; [exfalso; exact (core_nonempty d s He E)|]. cbn [beq negb]. f_equal. apply IH, Hes.
    + cbn. apply IH, Hes.
  - apply Forall_forall. intros p Hp. apply in_map_iff in Hp as [e [<- He]].
    rewrite forallb_forall in H. apply scan_elem, H, He.
Qed.

(* ---------- key and value of one element ---------- *)
Lemma cut_absent s : ~ In 61 s -> cut 61 s = None.
Proof.
  induction s as [|c s IH]; cbn; [reflexivity|]. intros H.
  destruct (c =? 61) eqn:E; [exfalso; apply H; left; lia|]. rewrite IH; [reflexivity|]. intros Hi. apply H. right. exact Hi.
Qed.
Lemma cut_first s r : ~ In 61 s -> cut 61 (s ++ 61 :: r) = Some (s, r).
Proof.
  induction s as [|c s IH]; cbn; [reflexivity|]. intros H.
  destruct (c =? 61) eqn:E; [exfalso; apply H; left; lia|]. rewrite IH; [reflexivity|]. intros Hi. apply H. right. exact Hi.
Qed.
Lemma tchar_no_eq s : forallb is_tchar s = true -> ~ In 61 s.
Proof.
  rewrite forallb_forall. intros H Hi. destruct (tchar_plain 61 (H 61 Hi)) as [_ [_ [_ C]]]. congruence.
Qed.

(* the value the parser keeps for a form *)
Definition kept_value (f : aform) (a : bytes) : bytes :=
  match f with FBare => [] | FToken => a | FQuoted m => 34 :: quote_body a m ++ [34] end.

Lemma directive_of_core d s : spell_ok d s = true ->
  directive_of_part (core d s) = Some (dn d, kept_value (s_form s) (da d)).
Proof.
  intros H. apply spell_ok_inv in H as [Hne [Hn [Hl [Hf _]]]].
  assert (Hs : s_name s <> []) by (intros E; rewrite E in Hl; cbn in Hl; congruence).
  assert (Hname : tp_trim (s_name s) = s_name s).
  { apply tp_trim_self. split; [rewrite <- (app_nil_r (s_name s)); apply hd_tchar_edge; assumption|apply last_tchar_edge, Hn]. }
  unfold directive_of_part, core.
  destruct (s_form s) as [| |m]; cbn [render_arg kept_value form_ok] in *.
  - rewrite app_nil_r, cut_absent by (apply tchar_no_eq, Hn). rewrite Hname, Hl.
    destruct (dn d); [congruence|reflexivity].
  - rewrite cut_first by (apply tchar_no_eq, Hn). rewrite Hname, Hl.
    assert (Ha : tp_trim (da d) = da d).
    { apply tp_trim_self. split; [|apply last_tchar_edge, Hf].
      destruct (da d) as [|c t]; [exact I|]. cbn in Hf. apply Bool.andb_true_iff in Hf as [Hc _]. apply tchar_not_space, Hc. }
    rewrite Ha. destruct (dn d); [congruence|reflexivity].
  - rewrite cut_first by (apply tchar_no_eq, Hn). rewrite Hname, Hl.
    assert (Ha : tp_trim (34 :: quote_body (da d) m ++ [34]) = 34 :: quote_body (da d) m ++ [34]).
    { apply tp_trim_self. split; [reflexivity|]. cbn [rev]. rewrite rev_app_distr. reflexivity. }
    rewrite Ha. destruct (dn d); [congruence|reflexivity].
Qed.

Lemma unquote_quote_body a : forall m, quote_ok a m = true -> unquote_inner false (quote_body a m) = Some a.
Proof.
  induction a as [|c a IH]; intros m H; cbn; [reflexivity|].
  cbn in H. apply Bool.andb_true_iff in H as [H1 H2].
  destruct (fst (mask_next m)) eqn:Em; cbn.
  - rewrite (IH _ H2). reflexivity.
  - cbn in H1. pose proof (qdtext_plain c H1) as [Ha Hb].
    replace (c =? 92) with false by lia. rewrite H1, (IH _ H2). reflexivity.
Qed.

Lemma unquote_kept f a : form_ok f a = true -> parse_quoted_string (kept_value f a) = a.
Proof.
  destruct f as [| |m]; cbn [kept_value form_ok]; intros H.
  - apply beq_eq in H. subst. reflexivity.
  - unfold parse_quoted_string, parse_quoted_string_e. destruct a as [|c t]; [reflexivity|].
    cbn in H. apply Bool.andb_true_iff in H as [Hc _]. destruct (tchar_plain c Hc) as [_ [Hq _]].
    replace (c =? 34) with false by lia. reflexivity.
  - unfold parse_quoted_string, parse_quoted_string_e. cbn [Z.eqb]. replace (34 =? 34) with true by reflexivity.
    rewrite rev_app_distr. cbn [rev app]. replace (34 =? 34) with true by reflexivity.
    rewrite rev_involutive, unquote_quote_body by exact H. reflexivity.
Qed.

(* ---------- the map ---------- *)
Fixpoint kvs_of (ps : list bytes) : list (bytes * bytes) :=
  match ps with
  | [] => []
  | p :: r => match directive_of_part p with Some kv => kv :: kvs_of r | None => kvs_of r end
  end.

(* the stored (raw) argument of a name, read as a quoted-string, after the parts ps have been collected on top of m *)
Definition unq (kv : bytes * bytes) : bytes * bytes := (fst kv, parse_quoted_string (snd kv)).

Lemma collect_lookup n ps : forall m,
  option_map parse_quoted_string (alookup n (collect ps m)) =
  find_merged n (map unq (kvs_of ps)) (option_map parse_quoted_string (alookup n m)).
Proof.
  induction ps as [|p ps IH]; intros m; cbn [collect kvs_of map]; [reflexivity|].
  destruct (directive_of_part p) as [[k v]|]; [|apply IH].
  rewrite IH. cbn [map]. unfold find_merged. cbn [fold_left unq fst snd]. f_equal.
  destruct (beq n k) eqn:E.
  - apply beq_eq in E. subst k. rewrite alookup_aset_same. cbn [option_map].
    unfold combine_directive, step_meaning. destruct (alookup n m) as [prev|]; cbn [option_map]; [|reflexivity].
    destruct (beq n no_cache_name); reflexivity.
  - rewrite alookup_aset_other by exact E. reflexivity.
Qed.

Lemma kvs_of_cores es : forallb elem_ok es = true ->
  map (fun kv => (fst kv, parse_quoted_string (snd kv))) (kvs_of (cores es)) = map (fun d => (dn d, da d)) (dirs_of es).
Proof.
  induction es as [|e es IH]; intros H; [reflexivity|]. cbn [forallb] in H. apply Bool.andb_true_iff in H as [He Hes].
  destruct e as [d s|ws]; cbn [cores dirs_of kvs_of]; [|apply IH, Hes].
  cbn [elem_ok] in He. rewrite (directive_of_core d s He). cbn [map fst snd]. rewrite (IH Hes).
  apply spell_ok_inv in He as [_ [_ [_ [Hf _]]]]. rewrite (unquote_kept _ _ Hf). reflexivity.
Qed.

(* ---------- lines ---------- *)
Definition flat_line (l : list element) : list element := match l with [] => [EEmpty []] | _ => l end.
Definition flatten (ls : list (list element)) : list element := List.concat (map flat_line ls).

Lemma join_cons2 (sep x : bytes) y r : join sep (x :: y :: r) = x ++ sep ++ join sep (y :: r).
Proof. reflexivity. Qed.
Lemma join_app (sep : bytes) l1 : forall l2, l1 <> [] -> l2 <> [] -> join sep (l1 ++ l2) = join sep l1 ++ sep ++ join sep l2.
Proof.
  induction l1 as [|x l1 IH]; intros l2 H1 H2; [congruence|].
  destruct l1 as [|y l1].
  - destruct l2 as [|z l2]; [congruence|]. reflexivity.
  - change ((x :: y :: l1) ++ l2) with (x :: (y :: l1) ++ l2). cbn [app]. rewrite !join_cons2.
    change (y :: l1 ++ l2) with ((y :: l1) ++ l2). rewrite IH by congruence. rewrite <- !app_assoc. reflexivity.
Qed.

Lemma render_flat_line l : render_line (flat_line l) = render_line l.
Proof. destruct l; reflexivity. Qed.
Lemma flat_line_nonempty l : flat_line l <> [].
Proof. destruct l; cbn; congruence. Qed.

Lemma join_lines ls : ls <> [] -> join [44] (render_lines ls) = render_line (flatten ls).
Proof.
  induction ls as [|l ls IH]; [congruence|]. intros _. destruct ls as [|l2 ls].
  - unfold flatten. cbn. rewrite app_nil_r. symmetry. apply render_flat_line.
  - unfold render_lines in *. cbn [map]. rewrite join_cons2. cbn [map] in IH. rewrite IH by congruence.
    unfold flatten. cbn [map List.concat]. fold (flatten (l2 :: ls)).
    unfold render_line at 3. rewrite map_app, join_app.
    + fold (render_line (flat_line l)). rewrite render_flat_line. reflexivity.
    + intros E. apply map_eq_nil in E. exact (flat_line_nonempty l E).
    + intros E. apply map_eq_nil in E. unfold flatten in E. cbn [map List.concat] in E.
      apply app_eq_nil in E as [E _]. exact (flat_line_nonempty l2 E).
Qed.

Lemma dirs_of_app a b : dirs_of (a ++ b) = dirs_of a ++ dirs_of b.
Proof. induction a as [|[d s|ws] a IH]; cbn; rewrite ?IH; reflexivity. Qed.
Lemma dirs_of_flatten ls : dirs_of (flatten ls) = dirs_of (List.concat ls).
Proof.
  induction ls as [|l ls IH]; [reflexivity|]. unfold flatten in *. cbn [map List.concat]. rewrite !dirs_of_app, IH.
  destruct l; reflexivity.
Qed.
Lemma elems_ok_flatten ls : forallb (forallb elem_ok) ls = true -> forallb elem_ok (flatten ls) = true.
Proof.
  induction ls as [|l ls IH]; [reflexivity|]. cbn [forallb]. intros H. apply Bool.andb_true_iff in H as [Hl Hls].
  unfold flatten in *. cbn [map List.concat]. rewrite forallb_app, (IH Hls), Bool.andb_true_r. destruct l; [reflexivity|exact Hl].
Qed.

Lemma parse_cc_eq h : parse_cc h = parse_directives (join [44] (hvalues cc_name h)).
Proof. unfold parse_cc. destruct (join [44] (hvalues cc_name h)); reflexivity. Qed.

(* ---------- the theorem ---------- *)
Definition arg_of (n : bytes) (d : directives) : option bytes := option_map parse_quoted_string (alookup n d).

Theorem parse_any_spelling (ls : list (list element)) (h : headers) (n : bytes) :
  hvalues cc_name h = render_lines ls ->
  forallb (forallb elem_ok) ls = true ->
  arg_of n (parse_cc h) = meaning (dirs_of (List.concat ls)) n.
Proof.
  intros Hh Hok. rewrite parse_cc_eq, Hh. destruct ls as [|l ls].
  - reflexivity.
  - rewrite join_lines by congruence. unfold parse_directives, render_line.
    rewrite parts_of_elems by (apply elems_ok_flatten, Hok).
    unfold arg_of. rewrite collect_lookup. cbn [alookup option_map].
    change (map unq) with (map (fun kv : bytes * bytes => (fst kv, parse_quoted_string (snd kv)))).
    rewrite kvs_of_cores by (apply elems_ok_flatten, Hok).
    unfold meaning. rewrite dirs_of_flatten. reflexivity.
Qed.

(* ---------- decisions depend on the meaning only ---------- *)
From HC Require Import Transport.
From Coq Require Import Permutation.

Definition cc_equiv (d1 d2 : directives) : Prop := forall n, arg_of n d1 = arg_of n d2.

Lemma duration_directive_arg d t :
  duration_directive d t = match arg_of t d with Some a => delta_seconds a | None => None end.
Proof. unfold duration_directive, arg_of. destruct (alookup t d); reflexivity. Qed.
Lemma has_token_arg d t : has_token d t = match arg_of t d with Some _ => true | None => false end.
Proof. unfold has_token, amem, arg_of. destruct (alookup t d); reflexivity. Qed.

Section Equiv.
  Variables d1 d2 : directives.
  Hypothesis E : cc_equiv d1 d2.

  Lemma eq_duration t : duration_directive d1 t = duration_directive d2 t.
  Proof. rewrite !duration_directive_arg, (E t). reflexivity. Qed.
  Lemma eq_token t : has_token d1 t = has_token d2 t.
  Proof. rewrite !has_token_arg, (E t). reflexivity. Qed.
  Lemma eq_max_stale_raw : req_max_stale_raw d1 = req_max_stale_raw d2.
  Proof. exact (E (bs "max-stale")). Qed.
  Lemma eq_resp_no_cache : resp_no_cache d1 = resp_no_cache d2.
  Proof.
    pose proof (E (bs "no-cache")) as H. unfold arg_of in H. unfold resp_no_cache.
    destruct (alookup (bs "no-cache") d1), (alookup (bs "no-cache") d2); cbn in H; congruence.
  Qed.

  (* every accessor of CCRequestDirectives / CCResponseDirectives *)
  Lemma eq_accessors :
    req_max_age d1 = req_max_age d2 /\ req_max_stale_raw d1 = req_max_stale_raw d2 /\
    req_min_fresh d1 = req_min_fresh d2 /\ req_no_cache d1 = req_no_cache d2 /\
    req_no_store d1 = req_no_store d2 /\ req_only_if_cached d1 = req_only_if_cached d2 /\
    req_stale_if_error d1 = req_stale_if_error d2 /\
    resp_max_age d1 = resp_max_age d2 /\ resp_max_age_present d1 = resp_max_age_present d2 /\
    resp_must_revalidate d1 = resp_must_revalidate d2 /\ resp_must_understand d1 = resp_must_understand d2 /\
    resp_no_store d1 = resp_no_store d2 /\ resp_public d1 = resp_public d2 /\ resp_immutable d1 = resp_immutable d2 /\
    resp_stale_if_error d1 = resp_stale_if_error d2 /\ resp_swr d1 = resp_swr d2 /\
    resp_no_cache d1 = resp_no_cache d2.
  Proof.
    repeat split; try apply eq_duration; try apply eq_token; [apply eq_max_stale_raw|apply eq_resp_no_cache].
  Qed.

  Lemma eq_max_stale_value : max_stale_value d1 = max_stale_value d2.
  Proof. unfold max_stale_value. rewrite eq_max_stale_raw. reflexivity. Qed.

  Lemma eq_response_lifetime e : response_lifetime e d1 = response_lifetime e d2.
  Proof.
    unfold response_lifetime, resp_max_age, resp_max_age_present, resp_public.
    rewrite (eq_duration (bs "max-age")), (eq_token (bs "max-age")), (eq_token (bs "public")). reflexivity.
  Qed.
End Equiv.

(* the decisions with the parsed directives as parameters; the transport's own functions are these
   applied to [parse_cc] of the request and of the stored response *)
Definition hit_qualified_cc (cc_resp : directives) : option (list bytes) :=
  match resp_no_cache cc_resp with Some raw => no_cache_fields raw | None => None end.
Definition hit_must_validate_cc (cc_req cc_resp : directives) (f : freshness) : bool :=
  let has_nc := match resp_no_cache cc_resp with Some _ => true | None => false end in
  let is_qualified := match hit_qualified_cc cc_resp with Some _ => true | None => false end in
  (has_nc && negb is_qualified) ||
  ((f_stale f || f_expired f) && resp_must_revalidate cc_resp) ||
  req_no_cache cc_req || f_req_max_age_exceeded f.
Definition decide_hit_cc (stored : stored_entry) (cc_req cc_resp : directives) (now : Z) : hit_decision :=
  let f := calculate_freshness stored cc_req cc_resp now in
  if hit_must_validate_cc cc_req cc_resp f then
    (if req_only_if_cached cc_req then D504 else DRevalidate true)
  else if negb (f_stale f) || req_only_if_cached cc_req then DServe
  else
    match resp_swr cc_resp with
    | Some swr =>
        let age := dur_add (f_age f) (time_sub now (f_age_ts f)) in
        let stale_for := wrap64 (age - f_life f) in
        if (0 <=? stale_for) && (stale_for <? swr) then DServeSWR else DRevalidate false
    | None => DRevalidate false
    end.

Lemma decide_hit_is q stored now :
  decide_hit q stored now = decide_hit_cc stored (parse_cc (q_hdr q)) (parse_cc (e_hdr stored)) now.
Proof. reflexivity. Qed.
Lemma hit_qualified_is stored : hit_qualified stored = hit_qualified_cc (parse_cc (e_hdr stored)).
Proof. reflexivity. Qed.

Section Decisions.
  Variables q1 q2 r1 r2 : directives.     (* two readings of the request's and of the response's field *)
  Hypothesis Eq : cc_equiv q1 q2.
  Hypothesis Er : cc_equiv r1 r2.

  Lemma eq_can_store resp : can_store_response resp q1 r1 = can_store_response resp q2 r2.
  Proof.
    unfold can_store_response, resp_must_understand, resp_no_store, req_no_store, resp_public, resp_max_age_present.
    rewrite (eq_token r1 r2 Er (bs "must-understand")), (eq_token r1 r2 Er (bs "no-store")),
      (eq_token q1 q2 Eq (bs "no-store")), (eq_token r1 r2 Er (bs "public")), (eq_token r1 r2 Er (bs "max-age")).
    reflexivity.
  Qed.

  Lemma eq_freshness e now : calculate_freshness e q1 r1 now = calculate_freshness e q2 r2 now.
  Proof.
    unfold calculate_freshness, req_max_age, req_min_fresh.
    rewrite (eq_duration q1 q2 Eq (bs "max-age")), (eq_duration q1 q2 Eq (bs "min-fresh")),
      (eq_max_stale_value q1 q2 Eq), (eq_response_lifetime r1 r2 Er e). reflexivity.
  Qed.

  Lemma eq_qualified : hit_qualified_cc r1 = hit_qualified_cc r2.
  Proof. unfold hit_qualified_cc. rewrite (eq_resp_no_cache r1 r2 Er). reflexivity. Qed.

  Lemma eq_must_validate f : hit_must_validate_cc q1 r1 f = hit_must_validate_cc q2 r2 f.
  Proof.
    unfold hit_must_validate_cc, resp_must_revalidate, req_no_cache.
    rewrite eq_qualified, (eq_resp_no_cache r1 r2 Er), (eq_token r1 r2 Er (bs "must-revalidate")), (eq_token q1 q2 Eq (bs "no-cache")).
    reflexivity.
  Qed.

  Lemma eq_decide_hit e now : decide_hit_cc e q1 r1 now = decide_hit_cc e q2 r2 now.
  Proof.
    unfold decide_hit_cc. rewrite (eq_freshness e now), eq_must_validate.
    unfold req_only_if_cached, resp_swr.
    rewrite (eq_token q1 q2 Eq (bs "only-if-cached")), (eq_duration r1 r2 Er (bs "stale-while-revalidate")). reflexivity.
  Qed.

  Lemma eq_stale_on_error f now :
    can_stale_on_error f [resp_stale_if_error r1; req_stale_if_error q1] now =
    can_stale_on_error f [resp_stale_if_error r2; req_stale_if_error q2] now.
  Proof.
    unfold resp_stale_if_error, req_stale_if_error.
    rewrite (eq_duration r1 r2 Er (bs "stale-if-error")), (eq_duration q1 q2 Eq (bs "stale-if-error")). reflexivity.
  Qed.
End Decisions.

(* two spellings of one field are equivalent readings *)
Lemma spellings_equiv ls1 ls2 h1 h2 :
  hvalues cc_name h1 = render_lines ls1 -> hvalues cc_name h2 = render_lines ls2 ->
  forallb (forallb elem_ok) ls1 = true -> forallb (forallb elem_ok) ls2 = true ->
  (forall n, meaning (dirs_of (List.concat ls1)) n = meaning (dirs_of (List.concat ls2)) n) ->
  cc_equiv (parse_cc h1) (parse_cc h2).
Proof.
  intros H1 H2 O1 O2 M n. rewrite (parse_any_spelling ls1 h1 n H1 O1), (parse_any_spelling ls2 h2 n H2 O2). apply M.
Qed.

(* ---------- order and extensions ---------- *)
Lemma find_merged_app n a b acc : find_merged n (a ++ b) acc = find_merged n b (find_merged n a acc).
Proof. unfold find_merged. apply fold_left_app. Qed.

Lemma find_merged_cons n kv l acc :
  find_merged n (kv :: l) acc = find_merged n l (if beq n (fst kv) then step_meaning n acc (snd kv) else acc).
Proof. reflexivity. Qed.

(* a directive of another name, anywhere in the list, changes nothing for [n] *)
Lemma meaning_extension a x b n : beq n (dn x) = false -> meaning (a ++ x :: b) n = meaning (a ++ b) n.
Proof.
  intros H. unfold meaning. rewrite !map_app. cbn [map]. rewrite !find_merged_app.
  rewrite find_merged_cons. cbn [fst]. rewrite H. reflexivity.
Qed.

(* a name bound at most once: its meaning is that binding *)
Lemma find_merged_absent n kvs acc : ~ In n (map fst kvs) -> find_merged n kvs acc = acc.
Proof.
  revert acc. induction kvs as [|[k v] kvs IH]; intros acc H; [reflexivity|].
  unfold find_merged. cbn [fold_left fst snd]. destruct (beq n k) eqn:E.
  - exfalso. apply H. left. apply beq_eq in E. symmetry. exact E.
  - apply IH. intros Hin. apply H. right. exact Hin.
Qed.
Lemma find_merged_unique n kvs v : NoDup (map fst kvs) -> In (n, v) kvs -> find_merged n kvs None = Some v.
Proof.
  induction kvs as [|[k w] kvs IH]; intros ND Hin; [destruct Hin|].
  cbn [map fst] in ND. inversion ND as [|? ? Hn ND']; subst.
  unfold find_merged. cbn [fold_left fst snd]. destruct Hin as [H|H].
  - injection H as -> ->. rewrite beq_refl. cbn [step_meaning]. apply find_merged_absent, Hn.
  - destruct (beq n k) eqn:E.
    + exfalso. apply beq_eq in E. subst k. apply Hn. apply in_map_iff. exists (n, v). split; [reflexivity|exact H].
    + apply IH; assumption.
Qed.
Lemma find_merged_in n kvs v : find_merged n kvs None = Some v -> In n (map fst kvs).
Proof.
  intros H. destruct (in_dec (list_eq_dec Z.eq_dec) n (map fst kvs)) as [Hin|Hout]; [exact Hin|].
  rewrite find_merged_absent in H by exact Hout. discriminate.
Qed.

(* any order of directives with distinct names has the same meaning *)
Lemma meaning_permutation ds1 ds2 n :
  Permutation ds1 ds2 -> NoDup (map dn ds1) -> meaning ds1 n = meaning ds2 n.
Proof.
  intros P ND. unfold meaning.
  set (kv := fun d => (dn d, da d)).
  assert (P' : Permutation (map kv ds1) (map kv ds2)) by (apply Permutation_map, P).
  assert (F1 : map fst (map kv ds1) = map dn ds1) by (rewrite map_map; reflexivity).
  assert (F2 : map fst (map kv ds2) = map dn ds2) by (rewrite map_map; reflexivity).
  assert (ND1 : NoDup (map fst (map kv ds1))) by (rewrite F1; exact ND).
  assert (ND2 : NoDup (map fst (map kv ds2))).
  { rewrite F2. apply (Permutation_NoDup (l := map dn ds1)); [apply Permutation_map, P|exact ND]. }
  destruct (in_dec (list_eq_dec Z.eq_dec) n (map fst (map kv ds1))) as [Hin|Hout].
  - apply in_map_iff in Hin as ([k v] & E & Hin). cbn [fst] in E. subst k.
    rewrite (find_merged_unique n _ v ND1 Hin). symmetry. apply find_merged_unique; [exact ND2|].
    apply (Permutation_in _ P'), Hin.
  - rewrite find_merged_absent by exact Hout. symmetry. apply find_merged_absent.
    intros Hin. apply Hout. apply (Permutation_in _ (Permutation_sym (Permutation_map fst P'))), Hin.
Qed.

(* ---------- occurrences of no-cache add up ---------- *)
Lemma find_merged_sticky kvs : find_merged no_cache_name kvs (Some []) = Some [].
Proof.
  induction kvs as [|[k v] kvs IH]; [reflexivity|]. rewrite find_merged_cons. cbn [fst snd].
  destruct (beq no_cache_name k); [|exact IH]. cbn [step_meaning]. rewrite beq_refl. exact IH.
Qed.
Lemma find_merged_unqualified kvs : forall acc, In (no_cache_name, []) kvs -> find_merged no_cache_name kvs acc = Some [].
Proof.
  induction kvs as [|[k v] kvs IH]; intros acc Hin; [destruct Hin|]. rewrite find_merged_cons. cbn [fst snd].
  destruct Hin as [H|H].
  - injection H as -> ->. rewrite beq_refl.
    assert (E : step_meaning no_cache_name acc [] = Some []).
    { destruct acc as [s|]; cbn [step_meaning]; [|reflexivity]. rewrite beq_refl. unfold merge_args.
      rewrite Bool.orb_true_r. reflexivity. }
    rewrite E. apply find_merged_sticky.
  - apply IH, H.
Qed.
(* one occurrence without argument, anywhere in the field, among any other occurrences: the meaning is the unqualified form *)
Theorem meaning_any_unqualified ds :
  (exists d, In d ds /\ dn d = no_cache_name /\ da d = []) -> meaning ds no_cache_name = Some [].
Proof.
  intros (d & Hin & Hn & Ha). unfold meaning. apply find_merged_unqualified.
  apply in_map_iff. exists d. split; [rewrite Hn, Ha; reflexivity|exact Hin].
Qed.

(* the canonical spelling is a spelling *)
Lemma canon_ok d : dn d <> [] -> forallb is_tchar (dn d) = true -> lower (dn d) = dn d ->
  forallb valid_qdtext (da d) = true -> spell_ok d (canon_spell d) = true.
Proof.
  intros Hne Ht Hl Hq. unfold spell_ok, canon_spell. cbn [s_name s_form s_pre s_post forallb].
  rewrite Ht, Hl, beq_refl. destruct (dn d) eqn:En; [congruence|]. cbn [beq negb andb]. rewrite !Bool.andb_true_r.
  destruct (da d) as [|c t] eqn:Ea; [reflexivity|].
  destruct (forallb is_tchar (c :: t)) eqn:Et; cbn [form_ok]; [exact Et|].
  clear -Hq. revert Hq. generalize (c :: t). intros a. induction a as [|x a IH]; cbn; [reflexivity|].
  intros H. apply Bool.andb_true_iff in H as [H1 H2]. rewrite H1. apply IH, H2.
Qed.
