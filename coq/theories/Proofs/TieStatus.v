(* TieStatus.v — the hand-written model's status tables, method gate and storability test are the functions the
   translator (/verif/translate) derives from the Go source of /repo on this run (Generated/SrcStatus.v). *)
From HC Require Import Transport.
From HC.Generated Require Import SrcStatus.
From Coq Require Import Lia.
Open Scope Z_scope.

Ltac by_codes :=
  repeat match goal with
         | |- context [?a =? ?b] => is_var a; destruct (Z.eqb_spec a b); [subst; reflexivity|]
         end; reflexivity.

Lemma tie_is_status_understood code : src_is_status_understood code = is_status_understood code.
Proof. unfold src_is_status_understood, is_status_understood. by_codes. Qed.

Lemma tie_is_heuristically_cacheable code : src_is_heuristically_cacheable code = is_heuristically_cacheable code.
Proof. unfold src_is_heuristically_cacheable, is_heuristically_cacheable. by_codes. Qed.

Lemma tie_is_stale_error_allowed code : src_is_stale_error_allowed code = is_stale_error_allowed code.
Proof. unfold src_is_stale_error_allowed, is_stale_error_allowed. by_codes. Qed.

Lemma tie_is_request_method_understood q : src_is_request_method_understood q = is_request_method_understood q.
Proof. reflexivity. Qed.

Lemma tie_can_store_response r req_cc res_cc : src_can_store_response r req_cc res_cc = can_store_response r req_cc res_cc.
Proof.
  unfold src_can_store_response, can_store_response. cbv zeta.
  rewrite tie_is_status_understood, tie_is_heuristically_cacheable. reflexivity.
Qed.
