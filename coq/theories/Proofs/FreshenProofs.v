(* FreshenProofs.v — what a validation writes back (C08). *)
From HC Require Import Transport Run.
From HC.Proofs Require Import HeaderProofs RunProofs IndexProofs.
Open Scope Z_scope.

(* StoreResponse, sequentially: the entry and the index are in the store afterwards *)
Theorem run_store_response limit {B} q r key refs a b i resolved (f : response -> prog B) w :
  normalize_vary (join [44] (hvalues (bs "Vary") (remove_hop_by_hop (p_hdr r)))) (q_hdr q) = Some resolved ->
  p_body_ok r = true ->
  let r1 := with_hdr r (remove_hop_by_hop (p_hdr r)) in
  let id := make_vary_key key resolved in
  exists w', run limit (bind (store_response q r key refs a b i) f) w = run limit (f r1) w' /\
    get_entry (w_store w') id = Some (entry_of id r1 a b) /\
    (exists l, get_refs (w_store w') key = Some (unique_refs l) /\
       In (Some {| r_id := id; r_vary := join [44] (hvalues (bs "Vary") (p_hdr r1)); r_resolved := resolved;
                   r_recv := date_header (p_hdr r1) |}) l /\
       (forall j x, Z.of_nat j <> i -> nth_error refs j = Some x -> In x l)) /\
    w_clock w' = w_clock w /\
    (forall k, beq k id = false -> beq k key = false -> alookup k (w_store w') = alookup k (w_store w)).
Proof.
  intros Hv Hb r1 id. unfold store_response. cbn [p_hdr with_hdr p_body_ok]. rewrite Hv, Hb. fold id. fold r1.
  cbn [bind run]. eexists; split; [reflexivity|]. cbn [w_store set_store w_clock].
  split.
  - rewrite get_entry_aset_other by apply vary_key_neq. apply get_entry_aset_same.
  - split.
    + eexists; split; [apply get_refs_aset_same|]. split.
      * destruct ((i <? 0) || (Z.of_nat (List.length refs) <=? i)) eqn:E.
        -- apply in_or_app; right; left; reflexivity.
        -- apply nth_error_In with (n := Z.to_nat i). apply replace_nth_same. lia.
      * intros j x Hj Hn.
        destruct ((i <? 0) || (Z.of_nat (List.length refs) <=? i)) eqn:E.
        -- apply in_or_app; left. eapply nth_error_In; exact Hn.
        -- apply nth_error_In with (n := j). rewrite replace_nth_other; [exact Hn|]. lia.
    + split; [reflexivity|].
      intros k Hk1 Hk2. rewrite alookup_aset_other by exact Hk2. rewrite alookup_aset_other by exact Hk1. reflexivity.
Qed.

(* updateStoredHeaders: the 304's fields replace the stored ones, except Content-Length and hop-by-hop
   fields; everything else is kept *)
Definition omitted_on_merge (fresh : headers) (n : bytes) : bool :=
  in_names n (bs "Content-Length" :: hop_by_hop_headers fresh).

Fixpoint alast {V} (n : bytes) (l : list (bytes * V)) : option V :=
  match l with
  | [] => None
  | (k, v) :: r => match alast n r with Some x => Some x | None => if beq n k then Some v else None end
  end.

Lemma merge_fold (omitted : list bytes) fresh : forall (stored : headers) n,
  alookup n (fold_left (fun acc kv => if in_names (fst kv) omitted then acc else aset (fst kv) (snd kv) acc) fresh stored) =
  if in_names n omitted then alookup n stored
  else match alast n fresh with Some v => Some v | None => alookup n stored end.
Proof.
  induction fresh as [|[k v] fresh IH]; intros stored n; cbn [fold_left alast fst snd].
  - destruct (in_names n omitted); reflexivity.
  - rewrite IH. destruct (in_names n omitted) eqn:Eo.
    + destruct (in_names k omitted) eqn:Ek; [reflexivity|].
      apply alookup_aset_other. destruct (beq n k) eqn:E; [|reflexivity].
      apply beq_eq in E; subst k. congruence.
    + destruct (alast n fresh); [reflexivity|].
      destruct (beq n k) eqn:E.
      * apply beq_eq in E; subst k. rewrite Eo. apply alookup_aset_same.
      * destruct (in_names k omitted); [reflexivity|]. apply alookup_aset_other; exact E.
Qed.

(* C08: the freshened header map *)
Theorem update_stored_headers_spec stored fresh n :
  alookup n (update_stored_headers stored fresh) =
  if omitted_on_merge fresh n then alookup n stored
  else match alast n fresh with Some v => Some v | None => alookup n stored end.
Proof. unfold update_stored_headers, omitted_on_merge. apply merge_fold. Qed.

(* a 304 on a GET without no-store: the merged response is what is stored, under the times of this
   exchange, with the stored status and body *)
Theorem run_freshen limit ctx q r w resolved :
  is_get (q_method q) = true -> p_status r = 304 ->
  req_no_store (rc_cc_req ctx) = false -> resp_no_store (parse_cc (p_hdr r)) = false ->
  let stored := rc_stored ctx in
  let merged_hdr := update_stored_headers (e_hdr stored) (p_hdr r) in
  let final_hdr := remove_hop_by_hop merged_hdr in
  normalize_vary (join [44] (hvalues (bs "Vary") final_hdr)) (q_hdr q) = Some resolved ->
  let id := make_vary_key (rc_url_key ctx) resolved in
  exists w' out, (run limit (handle_validation_response ctx q (RResp r)) w = (Done (OResp out), w')) /\
    (get_entry (w_store w') id =
      Some {| e_id := id; e_status := e_status stored; e_hdr := final_hdr; e_body := e_body stored;
              e_req_at := rc_start ctx; e_recv_at := rc_end ctx |}) /\
    (p_status out = e_status stored) /\ (p_body out = e_body stored) /\
    (hvalues status_header (p_hdr out) = [bs "REVALIDATED"]).
Proof.
  intros Hg H304 Hn1 Hn2 stored merged_hdr final_hdr Hv id.
  unfold handle_validation_response. rewrite Hg, H304. cbn [andb Z.eqb Pos.eqb]. rewrite Hn1, Hn2. cbn [orb].
  set (merged := response_of (entry_with_hdr (rc_stored ctx) (update_stored_headers (e_hdr (rc_stored ctx)) (p_hdr r)))).
  destruct (run_store_response limit q merged (rc_url_key ctx) (rc_refs ctx) (rc_start ctx) (rc_end ctx) (rc_ref_index ctx)
              resolved (fun r1 => Ret (OResp (with_hdr r1 (apply_status REVALIDATED (p_hdr r1))))) w)
    as (w' & Hr & He & _); [exact Hv|reflexivity|].
  exists w'. eexists. split; [rewrite Hr; reflexivity|].
  split; [exact He|]. split; [reflexivity|]. split; [reflexivity|]. cbn [p_hdr with_hdr]. apply status_values.
Qed.
