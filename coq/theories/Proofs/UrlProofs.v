(* UrlProofs.v — the URL key is sound for RFC 3986 §6.2.2-6.2.3 equivalence (C03): equal keys only for
   URIs with equal normal forms. *)
From HC Require Import SpecMon.
From HC.Proofs Require Import HeaderProofs.
From Coq Require Import ZifyBool.
Open Scope Z_scope.

(* ---------- percent-encoding: the implementation's normaliser is the specification's ---------- *)
Lemma unreserved_same v : is_unreserved_impl v = is_unreserved_ascii v.
Proof. reflexivity. Qed.
Lemma write_rune_unreserved v : is_unreserved_impl v = true -> write_rune v = [v].
Proof.
  unfold is_unreserved_impl, write_rune, is_alpha, is_upper, is_lower, is_digit. intros H.
  replace (v <? 128) with true by lia. reflexivity.
Qed.

Lemma norm_pct_spec s : forall k, norm_pct k s = spec_pct k s.
Proof.
  induction s as [|c r IH]; intros k; [reflexivity|].
  cbn [norm_pct spec_pct]. destruct k as [|k]; [|apply IH].
  destruct r as [|h1 [|h2 t]]; try (rewrite IH; reflexivity).
  destruct ((c =? 37) && is_hex h1 && is_hex h2); [|rewrite IH; reflexivity].
  rewrite IH, unreserved_same.
  destruct (is_unreserved_ascii (from_hex h1 * 16 + from_hex h2)) eqn:E; [|reflexivity].
  rewrite write_rune_unreserved by (rewrite unreserved_same; exact E). reflexivity.
Qed.

(* ---------- dot-segments ---------- *)
Lemma rds_spec segs : forall out, segs <> [] ->
  rds segs out = let '(st, slash) := dot_segments segs out in if slash then [] :: st else st.
Proof.
  induction segs as [|s r IH]; intros out Hne; [congruence|].
  destruct r as [|s2 r2].
  - cbn [rds dot_segments]. destruct (beq s [46]); [reflexivity|]. destruct (beq s [46; 46]); reflexivity.
  - change (rds (s :: s2 :: r2) out) with
      (if beq s [46] then rds (s2 :: r2) out else if beq s [46; 46] then rds (s2 :: r2) (tl out) else rds (s2 :: r2) (s :: out)).
    change (dot_segments (s :: s2 :: r2) out) with
      (if beq s [46] then dot_segments (s2 :: r2) out else if beq s [46; 46] then dot_segments (s2 :: r2) (tl out) else dot_segments (s2 :: r2) (s :: out)).
    destruct (beq s [46]); [apply IH; congruence|]. destruct (beq s [46; 46]); apply IH; congruence.
Qed.

Lemma split_on_nonempty sep s : split_on sep s <> [].
Proof.
  induction s as [|c r IH]; cbn; [congruence|]. destruct (c =? sep); [congruence|].
  destruct (split_on sep r); congruence.
Qed.

Lemma join_snoc_nil (sep : bytes) l : join sep (l ++ [[]]) = match l with [] => [] | _ => join sep l ++ sep end.
Proof.
  induction l as [|x l IH]; [reflexivity|]. destruct l as [|y l].
  - cbn. rewrite app_nil_r. reflexivity.
  - change ((x :: y :: l) ++ [[]]) with (x :: ((y :: l) ++ [[]])).
    change (join sep (x :: (y :: l) ++ [[]])) with (x ++ sep ++ join sep ((y :: l) ++ [[]])).
    rewrite IH. change (join sep (x :: y :: l)) with (x ++ sep ++ join sep (y :: l)). rewrite <- !app_assoc. reflexivity.
Qed.

Lemma remove_dots_spec rest : remove_dot_segments (47 :: rest) = spec_remove_dots (47 :: rest).
Proof.
  unfold remove_dot_segments, spec_remove_dots. cbn [Z.eqb Pos.eqb].
  rewrite rds_spec by apply split_on_nonempty.
  destruct (dot_segments (split_on 47 rest) []) as [st slash]. destruct slash.
  - cbn [rev]. rewrite join_snoc_nil. destruct st as [|x st].
    + cbn. reflexivity.
    + destruct (rev (x :: st)) eqn:E.
      * apply (f_equal (@List.length bytes)) in E. rewrite rev_length in E. discriminate.
      * reflexivity.
  - rewrite app_nil_r. reflexivity.
Qed.

(* ---------- normal forms of percent-encoding ---------- *)
Definition is_upper_hex (c : Z) : bool := is_digit c || ((65 <=? c) && (c <=? 70)).

Inductive NF : bytes -> Prop :=
| NF_nil : NF []
| NF_byte c s : c <> 37 -> NF s -> NF (c :: s)
| NF_triplet h1 h2 s : is_upper_hex h1 = true -> is_upper_hex h2 = true ->
    is_unreserved_ascii (from_hex h1 * 16 + from_hex h2) = false -> NF s -> NF (37 :: h1 :: h2 :: s).

Lemma upper_hex_is_hex c : is_upper_hex c = true -> is_hex c = true.
Proof. unfold is_upper_hex, is_hex, is_digit. lia. Qed.
Lemma hex_digit_upper n : 0 <= n < 16 -> is_upper_hex (hex_digit n) = true /\ from_hex (hex_digit n) = n.
Proof.
  intros H. unfold hex_digit, is_upper_hex, from_hex, is_digit.
  destruct (n <? 10) eqn:E.
  - split; [lia|]. replace ((48 <=? 48 + n) && (48 + n <=? 57)) with true by lia. lia.
  - split; [lia|]. replace ((48 <=? 65 + (n - 10)) && (65 + (n - 10) <=? 57)) with false by lia.
    replace ((97 <=? 65 + (n - 10)) && (65 + (n - 10) <=? 102)) with false by lia.
    replace ((65 <=? 65 + (n - 10)) && (65 + (n - 10) <=? 70)) with true by lia. lia.
Qed.
Lemma from_hex_range c : is_hex c = true -> 0 <= from_hex c < 16.
Proof. unfold is_hex, from_hex, is_digit. intros H. destruct ((48 <=? c) && (c <=? 57)) eqn:E1; [lia|].
  destruct ((97 <=? c) && (c <=? 102)) eqn:E2; [lia|]. destruct ((65 <=? c) && (c <=? 70)) eqn:E3; lia. Qed.

Lemma upper_hex_roundtrip c : is_upper_hex c = true -> hex_digit (from_hex c) = c.
Proof.
  unfold is_upper_hex, hex_digit, from_hex, is_digit. intros H.
  destruct ((48 <=? c) && (c <=? 57)) eqn:E.
  - replace (c - 48 <? 10) with true by lia. lia.
  - replace ((97 <=? c) && (c <=? 102)) with false by lia. replace ((65 <=? c) && (c <=? 70)) with true by lia.
    replace (c - 65 + 10 <? 10) with false by lia. lia.
Qed.

Lemma NF_fixed s : NF s -> norm_pct 0 s = s.
Proof.
  induction 1 as [|c s Hc _ IH|h1 h2 s H1 H2 Hu _ IH].
  - reflexivity.
  - cbn [norm_pct]. replace (c =? 37) with false by lia. cbn [andb].
    destruct s as [|a [|b t]]; rewrite IH; reflexivity.
  - cbn [norm_pct]. rewrite (upper_hex_is_hex _ H1), (upper_hex_is_hex _ H2). cbn [Z.eqb Pos.eqb andb].
    rewrite unreserved_same, Hu.
    assert (E : pct_upper (from_hex h1 * 16 + from_hex h2) = [37; h1; h2]).
    { unfold pct_upper. pose proof (from_hex_range _ (upper_hex_is_hex _ H1)). pose proof (from_hex_range _ (upper_hex_is_hex _ H2)).
      replace ((from_hex h1 * 16 + from_hex h2) / 16) with (from_hex h1) by (apply Z.div_unique with (r := from_hex h2); lia).
      replace ((from_hex h1 * 16 + from_hex h2) mod 16) with (from_hex h2) by (apply Z.mod_unique with (q := from_hex h1); lia).
      rewrite (upper_hex_roundtrip _ H1), (upper_hex_roundtrip _ H2). reflexivity. }
    rewrite E. cbn [app]. f_equal. f_equal. f_equal. exact IH.
Qed.

Lemma NF_norm s : forall k, pct_wf k s = true -> NF (norm_pct k s).
Proof.
  induction s as [|c r IH]; intros k H; [constructor|].
  cbn [norm_pct pct_wf] in *. destruct k as [|k]; [|apply IH, H].
  destruct (c =? 37) eqn:Ec.
  - destruct r as [|h1 [|h2 t]]; try discriminate.
    apply Bool.andb_true_iff in H as [H H3]. apply Bool.andb_true_iff in H as [H1 H2].
    rewrite H1, H2. cbn [andb]. rewrite unreserved_same.
    destruct (is_unreserved_ascii (from_hex h1 * 16 + from_hex h2)) eqn:Eu.
    + rewrite write_rune_unreserved by (rewrite unreserved_same; exact Eu). cbn [app].
      apply NF_byte; [|apply IH, H3].
      intros E. rewrite E in Eu. vm_compute in Eu. discriminate.
    + unfold pct_upper. cbn [app].
      pose proof (from_hex_range _ H1) as R1. pose proof (from_hex_range _ H2) as R2.
      assert (D : (from_hex h1 * 16 + from_hex h2) / 16 = from_hex h1) by (symmetry; apply Z.div_unique with (r := from_hex h2); lia).
      assert (M : (from_hex h1 * 16 + from_hex h2) mod 16 = from_hex h2) by (symmetry; apply Z.mod_unique with (q := from_hex h1); lia).
      rewrite D, M. destruct (hex_digit_upper _ R1) as [U1 F1]. destruct (hex_digit_upper _ R2) as [U2 F2].
      apply NF_triplet; [exact U1|exact U2|rewrite F1, F2; exact Eu|apply IH, H3].
  - cbn [andb]. assert (Hc : c <> 37) by lia.
    destruct r as [|h1 [|h2 t]]; apply NF_byte; try exact Hc; apply IH, H.
Qed.

Lemma NF_app a b : NF a -> NF b -> NF (a ++ b).
Proof.
  intros Ha Hb. induction Ha; cbn [app]; [exact Hb|apply NF_byte; assumption|apply NF_triplet; assumption].
Qed.

Lemma NF_split_gen s : NF s -> forall a b, s = a ++ 47 :: b -> NF a /\ NF b.
Proof.
  induction 1 as [|c s Hc Hs IH|h1 h2 s H1 H2 Hu Hs IH]; intros a b E.
  - destruct a; discriminate.
  - destruct a as [|x a]; cbn in E; injection E as -> ->.
    + split; [constructor|exact Hs].
    + destruct (IH a b eq_refl) as [Ha Hb]. split; [apply NF_byte; assumption|exact Hb].
  - destruct a as [|x [|y [|z a]]]; cbn in E.
    + discriminate.
    + injection E as _ E2 _. subst h1. vm_compute in H1. discriminate.
    + injection E as _ _ E3 _. subst h2. vm_compute in H2. discriminate.
    + injection E as E0 E1 E2 E3. subst x y z s. destruct (IH a b eq_refl) as [Ha Hb]. split; [apply NF_triplet; assumption|exact Hb].
Qed.
Lemma NF_split a b : NF (a ++ 47 :: b) -> NF a /\ NF b.
Proof. intros H. exact (NF_split_gen _ H a b eq_refl). Qed.

Lemma NF_segments s : NF s -> Forall NF (split_on 47 s).
Proof.
  induction 1 as [|c s Hc Hs IH|h1 h2 s H1 H2 Hu Hs IH].
  - repeat constructor.
  - cbn [split_on]. destruct (c =? 47); [constructor; [constructor|exact IH]|].
    destruct (split_on 47 s) as [|p ps]; [repeat constructor; assumption|].
    inversion IH; subst. constructor; [apply NF_byte; assumption|assumption].
  - assert (N1 : (h1 =? 47) = false) by (unfold is_upper_hex, is_digit in H1; lia).
    assert (N2 : (h2 =? 47) = false) by (unfold is_upper_hex, is_digit in H2; lia).
    cbn [split_on]. replace (37 =? 47) with false by reflexivity. rewrite N1, N2.
    destruct (split_on 47 s) as [|p ps].
    + repeat constructor; assumption.
    + inversion IH; subst. constructor; [apply NF_triplet; assumption|assumption].
Qed.

Lemma NF_dot_segments segs : forall out, Forall NF segs -> Forall NF out -> Forall NF (fst (dot_segments segs out)).
Proof.
  induction segs as [|s r IH]; intros out Hs Ho; [exact Ho|].
  inversion Hs as [|? ? Hs1 Hs2]; subst.
  assert (Htl : Forall NF (tl out)) by (destruct out; [constructor|inversion Ho; assumption]).
  destruct r as [|s2 r2].
  - cbn [dot_segments]. destruct (beq s [46]); [exact Ho|]. destruct (beq s [46; 46]); [exact Htl|]. cbn. constructor; assumption.
  - change (dot_segments (s :: s2 :: r2) out) with
      (if beq s [46] then dot_segments (s2 :: r2) out else if beq s [46; 46] then dot_segments (s2 :: r2) (tl out) else dot_segments (s2 :: r2) (s :: out)).
    destruct (beq s [46]); [apply IH; assumption|]. destruct (beq s [46; 46]); apply IH; try assumption. constructor; assumption.
Qed.

Lemma NF_join l : Forall NF l -> NF (join [47] l).
Proof.
  induction 1 as [|x l Hx Hl IH]; [constructor|]. destruct l as [|y l]; [exact Hx|].
  change (join [47] (x :: y :: l)) with (x ++ [47] ++ join [47] (y :: l)).
  apply NF_app; [exact Hx|]. apply NF_byte; [lia|exact IH].
Qed.

Lemma Forall_rev {X} (Q : X -> Prop) l : Forall Q l -> Forall Q (rev l).
Proof. intros H. apply Forall_forall. intros x Hx. apply in_rev in Hx. rewrite Forall_forall in H. auto. Qed.

Lemma NF_spec_remove_dots rest : NF rest -> NF (spec_remove_dots (47 :: rest)).
Proof.
  intros H. unfold spec_remove_dots. cbn [Z.eqb Pos.eqb].
  pose proof (NF_dot_segments (split_on 47 rest) [] (NF_segments _ H) (Forall_nil _)) as Hst.
  destruct (dot_segments (split_on 47 rest) []) as [st slash]. cbn [fst] in Hst.
  apply NF_byte; [lia|]. apply NF_app; [apply NF_join, Forall_rev, Hst|].
  destruct slash; [|constructor]. destruct st; [constructor|]. apply NF_byte; [lia|constructor].
Qed.

(* ---------- the parts of the key ---------- *)
Definition port_of (scheme port0 : bytes) : bytes := match port0 with [] => default_port scheme | _ => port0 end.
Definition port_suffix (scheme port : bytes) : bytes :=
  if negb (beq port []) && negb (beq port (default_port scheme)) then 58 :: port else [].
Definition key_path (u : url) : bytes :=
  let p1 := remove_dot_segments (normalize_percent_encoding (u_path u)) in
  normalize_percent_encoding (match p1 with [] => [47] | _ => p1 end).
Definition key_query (u : url) : bytes :=
  match u_query u with [] => [] | q => 63 :: normalize_percent_encoding q end.

Lemma lower_app a b : lower (a ++ b) = lower a ++ lower b.
Proof. apply map_app. Qed.

Lemma forallb_lower_nocolon s : forallb host_byte_ok s = true -> contains_byte 58 (lower s) = false.
Proof.
  induction s as [|c s IH]; [reflexivity|]. cbn [forallb]. intros H. apply Bool.andb_true_iff in H as [Hc Hs].
  change (lower (c :: s)) with (to_lower c :: lower s). cbn [contains_byte]. rewrite (IH Hs), Bool.orb_false_r.
  unfold host_byte_ok, is_alpha, is_upper, is_lower, is_digit in Hc. unfold to_lower, is_upper.
  destruct ((65 <=? c) && (c <=? 90)) eqn:E; lia.
Qed.
Lemma contains_lower_colon s : contains_byte 58 s = true -> contains_byte 58 (lower s) = true.
Proof.
  induction s as [|c s IH]; [discriminate|]. cbn [contains_byte]. intros H.
  change (lower (c :: s)) with (to_lower c :: lower s). cbn [contains_byte]. apply Bool.orb_true_iff in H as [H|H].
  - assert (c = 58) by lia. subst. reflexivity.
  - rewrite (IH H). apply Bool.orb_true_r.
Qed.

Lemma has_suffix_snoc r : has_suffix [93] r = true -> r = removelast r ++ [93].
Proof.
  unfold has_suffix. cbn [rev app]. intros H.
  destruct (rev r) as [|x t] eqn:E; [discriminate|]. cbn [has_prefix] in H. apply Bool.andb_true_iff in H as [H _]. apply Z.eqb_eq in H. subst x.
  assert (Hr : r = rev t ++ [93]) by (rewrite <- (rev_involutive r), E; reflexivity).
  rewrite Hr at 2. rewrite removelast_last. exact Hr.
Qed.

(* under host0_wf, stripping the brackets, lower-casing and bracketing again is lower-casing *)
Lemma bhost_is_lower h0 : host0_wf h0 = true ->
  (let host' := if has_prefix [91] h0 && has_suffix [93] h0 then removelast (tl h0) else h0 in
   let lhost := lower host' in
   if contains_byte 58 lhost then [91] ++ lhost ++ [93] else lhost) = lower h0.
Proof.
  unfold host0_wf. destruct h0 as [|c r]; [reflexivity|].
  destruct (c =? 91) eqn:Ec.
  - assert (c = 91) by lia. subst c. intros H. apply Bool.andb_true_iff in H as [H Hcolon]. apply Bool.andb_true_iff in H as [Hsuf Hip].
    assert (Hs2 : has_suffix [93] (91 :: r) = true).
    { unfold has_suffix in *. cbn [rev] in *. destruct (rev r) as [|x t]; [discriminate|]. cbn in *. exact Hsuf. }
    cbn [has_prefix Z.eqb Pos.eqb andb tl]. rewrite Hs2. cbn zeta.
    rewrite (contains_lower_colon _ Hcolon).
    pose proof (has_suffix_snoc r Hsuf) as Hsn. remember (removelast r) as r' eqn:Er'. clear Er'.
    rewrite Hsn. change (lower (91 :: r' ++ [93])) with (91 :: lower (r' ++ [93])). rewrite lower_app. reflexivity.
  - intros H. assert (Hp : has_prefix [91] (c :: r) = false) by (cbn [has_prefix]; replace (91 =? c) with false by lia; reflexivity).
    rewrite Hp. cbn [andb]. cbn zeta. rewrite (forallb_lower_nocolon _ H). reflexivity.
Qed.

(* ---------- splitting at separators ---------- *)
Lemma split_first_sep (sep : Z) a1 : forall a2 b1 b2,
  Forall (fun c => c <> sep) a1 -> Forall (fun c => c <> sep) a2 ->
  a1 ++ sep :: b1 = a2 ++ sep :: b2 -> a1 = a2 /\ b1 = b2.
Proof.
  induction a1 as [|x a1 IH]; intros a2 b1 b2 H1 H2 E; destruct a2 as [|y a2]; cbn in E.
  - injection E as ->. auto.
  - injection E as E1 _. inversion H2; subst. congruence.
  - injection E as E1 _. inversion H1; subst. congruence.
  - injection E as -> E. inversion H1 as [|? ? _ Ha1]; inversion H2 as [|? ? _ Ha2]; subst. destruct (IH _ _ _ Ha1 Ha2 E) as [-> ->]. auto.
Qed.

(* b is empty or begins with the separator *)
Definition opt_sep (sep : Z) (b : bytes) : Prop := b = [] \/ exists t, b = sep :: t.
Lemma split_opt_sep (sep : Z) a1 a2 b1 b2 :
  Forall (fun c => c <> sep) a1 -> Forall (fun c => c <> sep) a2 -> opt_sep sep b1 -> opt_sep sep b2 ->
  a1 ++ b1 = a2 ++ b2 -> a1 = a2 /\ b1 = b2.
Proof.
  intros H1 H2 [->|[t1 ->]] [->|[t2 ->]] E.
  - rewrite !app_nil_r in E. auto.
  - rewrite app_nil_r in E. subst a1. rewrite Forall_forall in H1. exfalso. apply (H1 sep); [apply in_or_app; right; left; reflexivity|reflexivity].
  - rewrite app_nil_r in E. subst a2. rewrite Forall_forall in H2. exfalso. apply (H2 sep); [apply in_or_app; right; left; reflexivity|reflexivity].
  - destruct (split_first_sep sep _ _ _ _ H1 H2 E) as [-> ->]. auto.
Qed.

(* ---------- no '?' (and no '/') where it matters ---------- *)
Definition avoids (x : Z) (s : bytes) : Prop := Forall (fun c => c <> x) s.

Lemma hex_digit_not n : hex_digit n <> 63.
Proof. unfold hex_digit. destruct (n <? 10) eqn:E; lia. Qed.

Lemma avoids_spec_pct s : forall k, avoids 63 s -> avoids 63 (spec_pct k s).
Proof.
  induction s as [|c r IH]; intros k H; [constructor|].
  inversion H as [|? ? Hc Hr]; subst. cbn [spec_pct]. destruct k as [|k]; [|apply IH, Hr].
  assert (Hdef : avoids 63 (c :: spec_pct 0 r)) by (constructor; [exact Hc|apply IH, Hr]).
  destruct r as [|h1 [|h2 t]]; try exact Hdef.
  destruct ((c =? 37) && is_hex h1 && is_hex h2); [|exact Hdef].
  apply Forall_app. split; [|apply IH, Hr].
  destruct (is_unreserved_ascii (from_hex h1 * 16 + from_hex h2)) eqn:E.
  - constructor; [|constructor]. intros Ev. rewrite Ev in E. vm_compute in E; discriminate.
  - unfold pct_upper. constructor; [lia|]. constructor; [apply hex_digit_not|]. constructor; [apply hex_digit_not|constructor].
Qed.

Lemma avoids_segments x s : avoids x s -> Forall (avoids x) (split_on 47 s).
Proof.
  induction 1 as [|c s Hc Hs IH]; [repeat constructor|].
  cbn [split_on]. destruct (c =? 47); [constructor; [constructor|exact IH]|].
  destruct (split_on 47 s) as [|p ps]; [repeat constructor; assumption|].
  inversion IH; subst. constructor; [constructor; assumption|assumption].
Qed.
Lemma avoids_dot_segments x segs : forall out, Forall (avoids x) segs -> Forall (avoids x) out -> Forall (avoids x) (fst (dot_segments segs out)).
Proof.
  induction segs as [|s r IH]; intros out Hs Ho; [exact Ho|].
  inversion Hs as [|? ? Hs1 Hs2]; subst.
  assert (Htl : Forall (avoids x) (tl out)) by (destruct out; [constructor|inversion Ho; assumption]).
  destruct r as [|s2 r2].
  - cbn [dot_segments]. destruct (beq s [46]); [exact Ho|]. destruct (beq s [46; 46]); [exact Htl|]. cbn. constructor; assumption.
  - change (dot_segments (s :: s2 :: r2) out) with
      (if beq s [46] then dot_segments (s2 :: r2) out else if beq s [46; 46] then dot_segments (s2 :: r2) (tl out) else dot_segments (s2 :: r2) (s :: out)).
    destruct (beq s [46]); [apply IH; assumption|]. destruct (beq s [46; 46]); apply IH; try assumption. constructor; assumption.
Qed.
Lemma avoids_join x l : x <> 47 -> Forall (avoids x) l -> avoids x (join [47] l).
Proof.
  intros Hx. induction 1 as [|y l Hy Hl IH]; [constructor|]. destruct l as [|z l]; [exact Hy|].
  change (join [47] (y :: z :: l)) with (y ++ [47] ++ join [47] (z :: l)).
  apply Forall_app. split; [exact Hy|]. constructor; [congruence|exact IH].
Qed.
Lemma avoids_spec_remove_dots rest : avoids 63 rest -> avoids 63 (spec_remove_dots (47 :: rest)).
Proof.
  intros H. unfold spec_remove_dots. cbn [Z.eqb Pos.eqb].
  pose proof (avoids_dot_segments 63 (split_on 47 rest) [] (avoids_segments _ _ H) (Forall_nil _)) as Hst.
  destruct (dot_segments (split_on 47 rest) []) as [st slash]. cbn [fst] in Hst.
  constructor; [lia|]. apply Forall_app. split; [apply avoids_join; [lia|apply Forall_rev, Hst]|].
  destruct slash; [|constructor]. destruct st; [constructor|]. constructor; [lia|constructor].
Qed.

Lemma contains_false_avoids x s : contains_byte x s = false -> avoids x s.
Proof.
  induction s as [|c s IH]; [constructor|]. cbn. intros H. apply Bool.orb_false_iff in H as [Hc Hs].
  constructor; [lia|apply IH, Hs].
Qed.

(* ---------- the shape of the key and of the normal form ---------- *)
Definition strip_brackets (h : bytes) : bytes :=
  if has_prefix [91] h && has_suffix [93] h then removelast (tl h) else h.

Lemma split_host_port_eq hp : split_host_port hp = (strip_brackets (fst (hp_split hp)), snd (hp_split hp)).
Proof.
  unfold split_host_port, hp_split, strip_brackets.
  destruct (negb (last_index 58 hp 0 (-1) =? -1) && valid_optional_port (drop (last_index 58 hp 0 (-1)) hp)); reflexivity.
Qed.

Definition key_hostport (u : url) : bytes :=
  lower (fst (hp_split (u_host u))) ++
  port_suffix (u_scheme u) (port_of (u_scheme u) (snd (hp_split (u_host u)))).

Lemma bhost_is_lower' h0 : host0_wf h0 = true ->
  (if contains_byte 58 (lower (strip_brackets h0)) then [91] ++ lower (strip_brackets h0) ++ [93]
   else lower (strip_brackets h0)) = lower h0.
Proof. intros H. exact (bhost_is_lower h0 H). Qed.

Lemma key_shape u : host0_wf (fst (hp_split (u_host u))) = true ->
  beq (u_scheme u) (bs "http") || beq (u_scheme u) (bs "https") = true ->
  make_url_key u = u_scheme u ++ bs "://" ++ key_hostport u ++ key_path u ++ key_query u.
Proof.
  intros H Hs. unfold make_url_key. rewrite split_host_port_eq.
  cbv zeta. cbv beta iota. rewrite (bhost_is_lower' _ H), Hs.
  unfold key_hostport, port_suffix, port_of, key_path, key_query, normalize_percent_encoding.
  rewrite <- !app_assoc. reflexivity.
Qed.

Lemma rfc_norm_shape u :
  rfc_norm u = {| n_scheme := lower (u_scheme u); n_host := lower (fst (hp_split (u_host u)));
                  n_port := port_of (lower (u_scheme u)) (snd (hp_split (u_host u)));
                  n_path := spec_remove_dots (spec_pct 0 (u_path u)); n_query := spec_pct 0 (u_query u) |}.
Proof.
  unfold rfc_norm, hp_split, port_of.
  destruct (negb (last_index 58 (u_host u) 0 (-1) =? -1) && valid_optional_port (drop (last_index 58 (u_host u) 0 (-1)) (u_host u))); reflexivity.
Qed.

Lemma norm_pct_cons c r : c <> 37 -> norm_pct 0 (c :: r) = c :: norm_pct 0 r.
Proof.
  intros H. cbn [norm_pct]. replace (c =? 37) with false by lia. cbn [andb]. destruct r as [|a [|b t]]; reflexivity.
Qed.

Lemma key_path_is_normal_path u :
  match u_path u with [] => true | c :: _ => c =? 47 end = true -> pct_wf 0 (u_path u) = true ->
  key_path u = spec_remove_dots (spec_pct 0 (u_path u)).
Proof.
  intros Habs Hwf. unfold key_path, normalize_percent_encoding. destruct (u_path u) as [|c r]; [reflexivity|].
  assert (c = 47) by lia. subst c.
  rewrite norm_pct_cons by lia. rewrite remove_dots_spec.
  assert (Hr : pct_wf 0 r = true) by (cbn [pct_wf] in Hwf; exact Hwf).
  pose proof (NF_spec_remove_dots _ (NF_norm r 0 Hr)) as HNF.
  destruct (spec_remove_dots (47 :: norm_pct 0 r)) as [|x t] eqn:E.
  { unfold spec_remove_dots in E. cbn [Z.eqb Pos.eqb] in E. destruct (dot_segments _ _); discriminate. }
  rewrite (NF_fixed _ HNF). rewrite <- E.
  rewrite <- norm_pct_spec, norm_pct_cons by lia. reflexivity.
Qed.

Lemma key_path_shape u :
  match u_path u with [] => true | c :: _ => c =? 47 end = true -> pct_wf 0 (u_path u) = true ->
  contains_byte 63 (u_path u) = false ->
  (exists t, key_path u = 47 :: t) /\ avoids 63 (key_path u).
Proof.
  intros Habs Hwf H63. rewrite (key_path_is_normal_path u Habs Hwf).
  destruct (u_path u) as [|c r].
  - split; [exists []; reflexivity|]. cbn. constructor; [lia|constructor].
  - assert (c = 47) by lia. subst c.
    assert (E : spec_pct 0 (47 :: r) = 47 :: spec_pct 0 r) by (rewrite <- !norm_pct_spec; apply norm_pct_cons; lia).
    rewrite E. split.
    + unfold spec_remove_dots. cbn [Z.eqb Pos.eqb]. destruct (dot_segments _ _). eexists; reflexivity.
    + apply avoids_spec_remove_dots, avoids_spec_pct.
      apply contains_false_avoids in H63. inversion H63; assumption.
Qed.

(* ---------- the host and port part ---------- *)
Definition host_char (c : Z) : Prop := c <> 58 /\ c <> 91 /\ c <> 47 /\ c <> 63.
Definition lit_char (c : Z) : Prop := c <> 93 /\ c <> 47 /\ c <> 63.

Lemma lower_host_chars s : forallb host_byte_ok s = true -> Forall host_char (lower s).
Proof.
  induction s as [|c s IH]; [constructor|]. cbn [forallb]. intros H. apply Bool.andb_true_iff in H as [Hc Hs].
  change (lower (c :: s)) with (to_lower c :: lower s). constructor; [|apply IH, Hs].
  unfold host_byte_ok, is_alpha, is_upper, is_lower, is_digit in Hc. unfold host_char, to_lower, is_upper.
  destruct ((65 <=? c) && (c <=? 90)) eqn:E; lia.
Qed.
Lemma lower_lit_chars s : forallb ip6_byte_ok s = true -> Forall lit_char (lower s).
Proof.
  induction s as [|c s IH]; [constructor|]. cbn [forallb]. intros H. apply Bool.andb_true_iff in H as [Hc Hs].
  change (lower (c :: s)) with (to_lower c :: lower s). constructor; [|apply IH, Hs].
  unfold ip6_byte_ok, is_hex, is_digit in Hc. unfold lit_char, to_lower, is_upper.
  destruct ((65 <=? c) && (c <=? 90)) eqn:E; lia.
Qed.

(* the two shapes of a lower-cased well-formed host *)
Lemma lower_host_shape h0 : host0_wf h0 = true ->
  Forall host_char (lower h0) \/ exists inner, lower h0 = 91 :: inner ++ [93] /\ Forall lit_char inner.
Proof.
  unfold host0_wf. destruct h0 as [|c r]; [left; constructor|].
  destruct (c =? 91) eqn:Ec.
  - assert (c = 91) by lia. subst c. intros H. apply Bool.andb_true_iff in H as [H _]. apply Bool.andb_true_iff in H as [Hsuf Hip].
    right. exists (lower (removelast r)). split; [|apply lower_lit_chars, Hip].
    pose proof (has_suffix_snoc r Hsuf) as Hsn. remember (removelast r) as r' eqn:Er'. clear Er'.
    rewrite Hsn. change (lower (91 :: r' ++ [93])) with (91 :: lower (r' ++ [93])). rewrite lower_app. reflexivity.
  - intros H. left. apply lower_host_chars, H.
Qed.

Definition port_part (b : bytes) : Prop := b = [] \/ exists p, b = 58 :: p /\ Forall (fun c => c <> 93) p.

Lemma hostport_inj a1 a2 b1 b2 :
  (Forall host_char a1 \/ exists i, a1 = 91 :: i ++ [93] /\ Forall lit_char i) ->
  (Forall host_char a2 \/ exists i, a2 = 91 :: i ++ [93] /\ Forall lit_char i) ->
  port_part b1 -> port_part b2 -> a1 ++ b1 = a2 ++ b2 -> a1 = a2 /\ b1 = b2.
Proof.
  intros [H1|(i1 & -> & L1)] [H2|(i2 & -> & L2)] P1 P2 E.
  - apply (split_opt_sep 58); try assumption.
    + eapply Forall_impl; [|exact H1]. intros c Hc. apply Hc.
    + eapply Forall_impl; [|exact H2]. intros c Hc. apply Hc.
    + destruct P1 as [->|(p & -> & _)]; [left; reflexivity|right; eexists; reflexivity].
    + destruct P2 as [->|(p & -> & _)]; [left; reflexivity|right; eexists; reflexivity].
  - exfalso. destruct a1 as [|x a1].
    + cbn in E. destruct P1 as [->|(p & -> & _)]; discriminate.
    + cbn in E. injection E as E1 _. inversion H1 as [|? ? Hx _]; subst. destruct Hx as (_ & Hx & _). congruence.
  - exfalso. destruct a2 as [|x a2].
    + cbn in E. destruct P2 as [->|(p & -> & _)]; discriminate.
    + cbn in E. injection E as E1 _. inversion H2 as [|? ? Hx _]; subst. destruct Hx as (_ & Hx & _). congruence.
  - cbn in E. injection E as E. rewrite <- !app_assoc in E. cbn [app] in E.
    destruct (split_first_sep 93 i1 i2 b1 b2) as [-> ->]; [| |exact E|auto].
    + eapply Forall_impl; [|exact L1]. intros c Hc. apply Hc.
    + eapply Forall_impl; [|exact L2]. intros c Hc. apply Hc.
Qed.

Lemma digits_no_bracket p : all_digits p = true -> Forall (fun c => c <> 93) p.
Proof.
  unfold all_digits. induction p as [|c p IH]; [constructor|]. cbn. intros H. apply Bool.andb_true_iff in H as [Hc Hp].
  constructor; [unfold is_digit in Hc; lia|apply IH, Hp].
Qed.

Lemma port_suffix_part s p : all_digits p = true -> all_digits (default_port s) = true ->
  port_part (port_suffix s (port_of s p)).
Proof.
  intros Hp Hd. unfold port_suffix. destruct (negb (beq (port_of s p) []) && negb (beq (port_of s p) (default_port s))); [|left; reflexivity].
  right. eexists. split; [reflexivity|]. apply digits_no_bracket. unfold port_of. destruct p; assumption.
Qed.

(* from the suffix back to the port, for http and https *)
Lemma port_suffix_inj s p1 p2 : beq s (bs "http") || beq s (bs "https") = true ->
  port_suffix s (port_of s p1) = port_suffix s (port_of s p2) -> port_of s p1 = port_of s p2.
Proof.
  intros Hs. assert (Hd : default_port s <> []).
  { unfold default_port. destruct (beq s (bs "http")); [discriminate|]. cbn [orb] in Hs. destruct (beq s (bs "https")); [discriminate|discriminate]. }
  assert (Hne : forall p, port_of s p <> []) by (intros p; unfold port_of; destruct p; [exact Hd|discriminate]).
  unfold port_suffix. intros E.
  destruct (beq (port_of s p1) []) eqn:E1; [apply beq_eq in E1; exfalso; exact (Hne _ E1)|].
  destruct (beq (port_of s p2) []) eqn:E2; [apply beq_eq in E2; exfalso; exact (Hne _ E2)|].
  cbn [negb andb] in E.
  destruct (beq (port_of s p1) (default_port s)) eqn:D1; destruct (beq (port_of s p2) (default_port s)) eqn:D2; cbn [negb] in E; try discriminate.
  - apply beq_eq in D1, D2. congruence.
  - injection E as E. exact E.
Qed.

(* ---------- soundness of the key ---------- *)
Lemma hostport_avoids_slash u : host0_wf (fst (hp_split (u_host u))) = true ->
  all_digits (snd (hp_split (u_host u))) = true -> all_digits (default_port (u_scheme u)) = true ->
  avoids 47 (key_hostport u).
Proof.
  intros Hh Hp Hd. unfold key_hostport. apply Forall_app. split.
  - destruct (lower_host_shape _ Hh) as [H|(i & -> & L)].
    + eapply Forall_impl; [|exact H]. intros c Hc. apply Hc.
    + constructor; [lia|]. apply Forall_app. split; [|constructor; [lia|constructor]].
      eapply Forall_impl; [|exact L]. intros c Hc. apply Hc.
  - unfold port_suffix. destruct (_ && _); [|constructor]. constructor; [lia|].
    assert (Hd' : all_digits (port_of (u_scheme u) (snd (hp_split (u_host u)))) = true) by (unfold port_of; destruct (snd _); assumption).
    revert Hd'. generalize (port_of (u_scheme u) (snd (hp_split (u_host u)))). unfold all_digits.
    intros l. induction l as [|c l IH]; [constructor|]. cbn [forallb]. intros H. apply Bool.andb_true_iff in H as [Hc Hl].
    constructor; [unfold is_digit in Hc; lia|apply IH, Hl].
Qed.

Lemma scheme_cases s : beq s (bs "http") || beq s (bs "https") = true -> s = bs "http" \/ s = bs "https".
Proof. intros H. apply Bool.orb_true_iff in H as [H|H]; apply beq_eq in H; auto. Qed.

Theorem key_sound u1 u2 : url_wf u1 = true -> url_wf u2 = true ->
  make_url_key u1 = make_url_key u2 -> rfc_norm u1 = rfc_norm u2.
Proof.
  unfold url_wf. intros W1 W2 E.
  repeat (apply Bool.andb_true_iff in W1 as [W1 ?]). repeat (apply Bool.andb_true_iff in W2 as [W2 ?]).
  match goal with H : negb (contains_byte 63 (u_path u1)) = true |- _ => apply Bool.negb_true_iff in H; rename H into Q1 end.
  match goal with H : negb (contains_byte 63 (u_path u2)) = true |- _ => apply Bool.negb_true_iff in H; rename H into Q2 end.
  rename W1 into S1. rename W2 into S2.
  match goal with H : host0_wf (fst (hp_split (u_host u1))) = true |- _ => rename H into Hh1 end.
  match goal with H : host0_wf (fst (hp_split (u_host u2))) = true |- _ => rename H into Hh2 end.
  match goal with H : all_digits (snd (hp_split (u_host u1))) = true |- _ => rename H into Hp1 end.
  match goal with H : all_digits (snd (hp_split (u_host u2))) = true |- _ => rename H into Hp2 end.
  match goal with H : pct_wf 0 (u_path u1) = true |- _ => rename H into Hw1 end.
  match goal with H : pct_wf 0 (u_path u2) = true |- _ => rename H into Hw2 end.
  match goal with H : match u_path u1 with [] => true | _ :: _ => _ end = true |- _ => rename H into Ha1 end.
  match goal with H : match u_path u2 with [] => true | _ :: _ => _ end = true |- _ => rename H into Ha2 end.
  rewrite (key_shape u1 Hh1 S1), (key_shape u2 Hh2 S2) in E.
  (* schemes *)
  assert (Es : u_scheme u1 = u_scheme u2).
  { destruct (scheme_cases _ S1) as [A|A], (scheme_cases _ S2) as [B|B]; rewrite A, B in *; try reflexivity;
      cbn in E; repeat (injection E as ? E); discriminate. }
  assert (Hd1 : all_digits (default_port (u_scheme u1)) = true) by (destruct (scheme_cases _ S1) as [A|A]; rewrite A; reflexivity).
  assert (Hd2 : all_digits (default_port (u_scheme u2)) = true) by (rewrite <- Es; exact Hd1).
  rewrite <- Es in E. apply app_inv_head in E. apply app_inv_head in E.
  (* host:port | path | query *)
  destruct (key_path_shape u1 Ha1 Hw1 Q1) as [[t1 T1] V1]. destruct (key_path_shape u2 Ha2 Hw2 Q2) as [[t2 T2] V2].
  assert (E2 : key_hostport u1 ++ 47 :: (t1 ++ key_query u1) = key_hostport u2 ++ 47 :: (t2 ++ key_query u2)).
  { rewrite T1, T2 in E. exact E. }
  destruct (split_first_sep 47 _ _ _ _ (hostport_avoids_slash u1 Hh1 Hp1 Hd1) (hostport_avoids_slash u2 Hh2 Hp2 Hd2) E2) as [EH ET].
  assert (E3 : key_path u1 ++ key_query u1 = key_path u2 ++ key_query u2) by (rewrite T1, T2; cbn [app]; f_equal; exact ET).
  assert (O1 : opt_sep 63 (key_query u1)) by (unfold key_query; destruct (u_query u1); [left; reflexivity|right; eexists; reflexivity]).
  assert (O2 : opt_sep 63 (key_query u2)) by (unfold key_query; destruct (u_query u2); [left; reflexivity|right; eexists; reflexivity]).
  destruct (split_opt_sep 63 _ _ _ _ V1 V2 O1 O2 E3) as [EP EQ].
  (* host and port *)
  unfold key_hostport in EH.
  destruct (hostport_inj _ _ _ _ (lower_host_shape _ Hh1) (lower_host_shape _ Hh2)
              (port_suffix_part _ _ Hp1 Hd1) (port_suffix_part _ _ Hp2 Hd2) EH) as [EHost ESfx].
  rewrite <- Es in ESfx. pose proof (port_suffix_inj _ _ _ S1 ESfx) as EPort.
  (* query *)
  assert (EQ2 : spec_pct 0 (u_query u1) = spec_pct 0 (u_query u2)).
  { unfold key_query, normalize_percent_encoding in EQ. rewrite <- !norm_pct_spec.
    destruct (u_query u1) as [|a q1], (u_query u2) as [|b q2]; try discriminate; [reflexivity|]. injection EQ as EQ. exact EQ. }
  (* assemble *)
  rewrite !rfc_norm_shape. rewrite <- Es.
  assert (Els : lower (u_scheme u1) = u_scheme u1) by (destruct (scheme_cases _ S1) as [A|A]; rewrite A; reflexivity).
  rewrite Els, EHost, EPort, EQ2.
  rewrite <- (key_path_is_normal_path u1 Ha1 Hw1), <- (key_path_is_normal_path u2 Ha2 Hw2), EP. reflexivity.
Qed.

Lemma nurl_eqb_refl a : nurl_eqb a a = true.
Proof. unfold nurl_eqb. rewrite !beq_refl. reflexivity. Qed.

Corollary key_sound_equiv u1 u2 : url_wf u1 = true -> url_wf u2 = true ->
  make_url_key u1 = make_url_key u2 -> uri_equiv u1 u2 = true.
Proof. intros W1 W2 E. unfold uri_equiv. rewrite (key_sound u1 u2 W1 W2 E). apply nurl_eqb_refl. Qed.

Lemma spec_pct_nonempty c r : spec_pct 0 (c :: r) = [] -> False.
Proof.
  cbn [spec_pct]. destruct r as [|h1 [|h2 t]]; try discriminate.
  destruct ((c =? 37) && is_hex h1 && is_hex h2); [|discriminate].
  destruct (is_unreserved_ascii _); discriminate.
Qed.

(* completeness on the same domain: equivalent URIs have one key *)
Theorem key_complete u1 u2 : url_wf u1 = true -> url_wf u2 = true ->
  rfc_norm u1 = rfc_norm u2 -> make_url_key u1 = make_url_key u2.
Proof.
  unfold url_wf. intros W1 W2 E.
  repeat (apply Bool.andb_true_iff in W1 as [W1 ?]). repeat (apply Bool.andb_true_iff in W2 as [W2 ?]).
  rename W1 into S1. rename W2 into S2.
  match goal with H : host0_wf (fst (hp_split (u_host u1))) = true |- _ => rename H into Hh1 end.
  match goal with H : host0_wf (fst (hp_split (u_host u2))) = true |- _ => rename H into Hh2 end.
  match goal with H : pct_wf 0 (u_path u1) = true |- _ => rename H into Hw1 end.
  match goal with H : pct_wf 0 (u_path u2) = true |- _ => rename H into Hw2 end.
  match goal with H : match u_path u1 with [] => true | _ :: _ => _ end = true |- _ => rename H into Ha1 end.
  match goal with H : match u_path u2 with [] => true | _ :: _ => _ end = true |- _ => rename H into Ha2 end.
  rewrite !rfc_norm_shape in E. injection E as E1 E2 E3 E4 E5.
  assert (Els1 : lower (u_scheme u1) = u_scheme u1) by (destruct (scheme_cases _ S1) as [A|A]; rewrite A; reflexivity).
  assert (Els2 : lower (u_scheme u2) = u_scheme u2) by (destruct (scheme_cases _ S2) as [A|A]; rewrite A; reflexivity).
  rewrite Els1, Els2 in *.
  rewrite (key_shape u1 Hh1 S1), (key_shape u2 Hh2 S2).
  unfold key_hostport. rewrite E1 in E3 |- *. rewrite E2, E3.
  rewrite (key_path_is_normal_path u1 Ha1 Hw1), (key_path_is_normal_path u2 Ha2 Hw2), E4.
  f_equal. f_equal. f_equal. f_equal.
  unfold key_query, normalize_percent_encoding.
  destruct (u_query u1) as [|a q1] eqn:Q1, (u_query u2) as [|b q2] eqn:Q2.
  - reflexivity.
  - exfalso. symmetry in E5. exact (spec_pct_nonempty _ _ E5).
  - exfalso. exact (spec_pct_nonempty _ _ E5).
  - rewrite !norm_pct_spec, E5. reflexivity.
Qed.

(* ---------- what the parser produces lies in the domain of the key theorems ---------- *)
Definition byte_range (s : bytes) : Prop := Forall (fun c => 0 <= c < 256) s.

Lemma unescape_pct_wf s : forall k, unescape_path k s <> None -> pct_wf k s = true.
Proof.
  induction s as [|c r IH]; intros k H; [reflexivity|]. cbn [unescape_path pct_wf] in *.
  destruct k as [|k]; [|apply IH, H].
  destruct (c =? 37) eqn:E.
  - destruct r as [|h1 [|h2 t]]; try (exfalso; apply H; reflexivity).
    destruct (is_hex h1 && is_hex h2) eqn:Eh; [|exfalso; apply H; reflexivity]. cbn [andb].
    apply IH. intros Hn. apply H. rewrite Hn. reflexivity.
  - apply IH. intros Hn. apply H. rewrite Hn. reflexivity.
Qed.

Lemma hex_digit_is_hex n : 0 <= n < 16 -> is_hex (hex_digit n) = true.
Proof. intros H. apply upper_hex_is_hex. apply hex_digit_upper. exact H. Qed.

Lemma escape_path_pct_wf raw : byte_range raw -> pct_wf 0 (escape_path raw) = true.
Proof.
  unfold escape_path. induction 1 as [|c r Hc _ IH]; [reflexivity|]. cbn [flat_map].
  destruct (should_escape_path c) eqn:E.
  - unfold pct_upper. cbn [app pct_wf Z.eqb Pos.eqb].
    rewrite (hex_digit_is_hex (c / 16)) by (split; [apply Z.div_pos; lia|apply Z.div_lt_upper_bound; lia]).
    rewrite (hex_digit_is_hex (c mod 16)) by (apply Z.mod_pos_bound; lia).
    cbn [andb]. exact IH.
  - assert (Hne : c <> 37) by (intros ->; vm_compute in E; discriminate).
    cbn [app pct_wf]. replace (c =? 37) with false by lia. exact IH.
Qed.

Lemma avoids_contains_false x s : avoids x s -> contains_byte x s = false.
Proof.
  induction 1 as [|c s Hc _ IH]; [reflexivity|]. cbn [contains_byte]. rewrite IH. replace (c =? x) with false by lia. reflexivity.
Qed.

Lemma escape_path_no_question raw : contains_byte 63 (escape_path raw) = false.
Proof.
  apply avoids_contains_false. unfold escape_path. induction raw as [|c r IH]; [constructor|]. cbn [flat_map].
  apply Forall_app. split; [|exact IH]. destruct (should_escape_path c) eqn:E.
  - unfold pct_upper. constructor; [lia|]. constructor; [apply hex_digit_not|]. constructor; [apply hex_digit_not|constructor].
  - constructor; [|constructor]. intros ->. vm_compute in E. discriminate.
Qed.

Lemma valid_encoded_no_question p : valid_encoded_path p = true -> contains_byte 63 p = false.
Proof.
  unfold valid_encoded_path. induction p as [|c r IH]; [reflexivity|]. cbn [forallb contains_byte]. intros H.
  apply Bool.andb_true_iff in H as [Hc Hr]. rewrite (IH Hr).
  assert (Hne : c <> 63) by (intros ->; vm_compute in Hc; discriminate).
  replace (c =? 63) with false by lia. reflexivity.
Qed.

(* setPath + EscapedPath: the result has well-formed escapes and no raw '?'; it begins like its argument *)
Lemma unescape_range s : forall k raw, byte_range s -> unescape_path k s = Some raw -> byte_range raw.
Proof.
  induction s as [|c r IH]; intros k raw Hs H; cbn [unescape_path] in H; [injection H as <-; constructor|].
  inversion Hs as [|? ? Hc Hr]; subst. destruct k as [|k]; [|eapply IH; eassumption].
  destruct (c =? 37) eqn:E.
  - destruct r as [|h1 [|h2 t]]; try discriminate. destruct (is_hex h1 && is_hex h2) eqn:Eh; [|discriminate].
    destruct (unescape_path 2 (h1 :: h2 :: t)) as [raw'|] eqn:Eu; [|discriminate]. injection H as <-.
    apply Bool.andb_true_iff in Eh as [E1 E2]. pose proof (from_hex_range _ E1). pose proof (from_hex_range _ E2).
    constructor; [lia|eapply IH; eassumption].
  - destruct (unescape_path 0 r) as [raw'|] eqn:Eu; [|discriminate]. injection H as <-. constructor; [exact Hc|eapply IH; eassumption].
Qed.

Lemma escaped_path_of_wf p0 p : byte_range p0 -> escaped_path_of p0 = Some p ->
  pct_wf 0 p = true /\ contains_byte 63 p = false /\
  (match p0 with [] => True | c :: _ => c = 47 end -> match p with [] => true | c :: _ => c =? 47 end = true).
Proof.
  intros Hr H. unfold escaped_path_of in H. destruct (unescape_path 0 p0) as [raw|] eqn:Eu; [|discriminate].
  injection H as <-. destruct (valid_encoded_path p0) eqn:Ev.
  - split; [apply unescape_pct_wf; congruence|]. split; [apply valid_encoded_no_question, Ev|].
    destruct p0; [reflexivity|]. intros ->. reflexivity.
  - split; [apply escape_path_pct_wf; eapply unescape_range; eassumption|]. split; [apply escape_path_no_question|].
    destruct p0 as [|c r]; [cbn in Eu; injection Eu as <-; reflexivity|]. intros ->.
    cbn [unescape_path] in Eu. replace (47 =? 37) with false in Eu by reflexivity.
    destruct (unescape_path 0 r); [|discriminate]. injection Eu as <-. reflexivity.
Qed.

