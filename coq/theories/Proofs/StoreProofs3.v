(* StoreProofs3.v — the directory-tree model of fscache behaves as a map (C14). *)
From HC Require Import Store.
From HC.Proofs Require Import HeaderProofs StoreProofs1 StoreProofs2.
Open Scope Z_scope.

Lemma path_eqb_eq a b : path_eqb a b = true <-> a = b.
Proof.
  split; [|intros ->; induction b as [|x b IH]; cbn; [reflexivity|rewrite beq_refl, IH; reflexivity]].
  revert b; induction a as [|x a IH]; destruct b as [|y b]; cbn; try congruence.
  intros H. apply Bool.andb_true_iff in H as [H1 H2]. apply beq_eq in H1. rewrite (IH _ H2), H1. reflexivity.
Qed.
Lemma path_eqb_refl a : path_eqb a a = true.
Proof. apply path_eqb_eq; reflexivity. Qed.
Lemma path_eqb_neq a b : a <> b -> path_eqb a b = false.
Proof. intros H. destruct (path_eqb a b) eqn:E; [apply path_eqb_eq in E; contradiction|reflexivity]. Qed.

Lemma tlookup_tset_same p n t : tlookup p (tset p n t) = Some n.
Proof.
  induction t as [|[p' n'] t IH]; cbn; [rewrite path_eqb_refl; reflexivity|].
  destruct (path_eqb p p') eqn:E; cbn; [rewrite path_eqb_refl; reflexivity|rewrite E; exact IH].
Qed.
Lemma tlookup_tset_other p q n t : p <> q -> tlookup p (tset q n t) = tlookup p t.
Proof.
  intros Hne. induction t as [|[p' n'] t IH]; cbn; [rewrite (path_eqb_neq _ _ Hne); reflexivity|].
  destruct (path_eqb q p') eqn:E; cbn.
  - apply path_eqb_eq in E; subst p'. rewrite (path_eqb_neq _ _ Hne). reflexivity.
  - destruct (path_eqb p p'); [reflexivity|exact IH].
Qed.
Lemma tlookup_tremove_same p t : tlookup p (tremove p t) = None.
Proof.
  induction t as [|[p' n'] t IH]; cbn; [reflexivity|].
  destruct (path_eqb p p') eqn:E; cbn; [exact IH|rewrite E; exact IH].
Qed.
Lemma tlookup_tremove_other p q t : p <> q -> tlookup p (tremove q t) = tlookup p t.
Proof.
  intros Hne. induction t as [|[p' n'] t IH]; cbn; [reflexivity|].
  destruct (path_eqb q p') eqn:E; cbn.
  - apply path_eqb_eq in E; subst p'. rewrite (path_eqb_neq _ _ Hne). exact IH.
  - destruct (path_eqb p p'); [reflexivity|exact IH].
Qed.

Lemma tlookup_In p n t : tlookup p t = Some n -> In (p, n) t.
Proof.
  induction t as [|[p' n'] t IH]; cbn; [discriminate|].
  destruct (path_eqb p p') eqn:E; intros H.
  - apply path_eqb_eq in E; subst. inversion H; subst. left; reflexivity.
  - right. apply IH; exact H.
Qed.

(* every path occurs at most once *)
Definition nodup_paths (t : tree) : Prop := NoDup (map fst t).

Lemma tset_paths p n t q : In q (map fst (tset p n t)) -> q = p \/ In q (map fst t).
Proof.
  induction t as [|[p' n'] t IH]; cbn; [intros [H|[]]; auto|].
  destruct (path_eqb p p') eqn:E; cbn.
  - apply path_eqb_eq in E; subst p'. intros [H|H]; auto.
  - intros [H|H]; [auto|]. destruct (IH H); auto.
Qed.

Lemma nodup_tset p n t : nodup_paths t -> nodup_paths (tset p n t).
Proof.
  unfold nodup_paths. induction t as [|[p' n'] t IH]; cbn; intros H.
  - constructor; [intros []|constructor].
  - inversion H as [|? ? Hn Hd]; subst. destruct (path_eqb p p') eqn:E; cbn.
    + apply path_eqb_eq in E; subst p'. constructor; assumption.
    + constructor; [|apply IH; exact Hd].
      intros Hin. destruct (tset_paths _ _ _ _ Hin) as [Hq|Hq]; [subst; rewrite path_eqb_refl in E; discriminate|contradiction].
Qed.

Lemma tremove_paths p t q : In q (map fst (tremove p t)) -> In q (map fst t).
Proof.
  induction t as [|[p' n'] t IH]; cbn; [auto|].
  destruct (path_eqb p p'); cbn; [intros H; right; apply IH; exact H|].
  intros [H|H]; [left; exact H|right; apply IH; exact H].
Qed.

Lemma nodup_tremove p t : nodup_paths t -> nodup_paths (tremove p t).
Proof.
  unfold nodup_paths. induction t as [|[p' n'] t IH]; cbn; intros H; [constructor|].
  inversion H as [|? ? Hn Hd]; subst. destruct (path_eqb p p'); cbn; [apply IH; exact Hd|].
  constructor; [|apply IH; exact Hd]. intros Hin. apply Hn. eapply tremove_paths; exact Hin.
Qed.

Lemma nodup_lookup t p n : nodup_paths t -> In (p, n) t -> tlookup p t = Some n.
Proof.
  unfold nodup_paths. induction t as [|[p' n'] t IH]; cbn; intros Hd Hin; [destruct Hin|].
  inversion Hd as [|? ? Hn Hd']; subst. destruct Hin as [Hin|Hin].
  - inversion Hin; subst. rewrite path_eqb_refl. reflexivity.
  - destruct (path_eqb p p') eqn:E; [|apply IH; assumption].
    apply path_eqb_eq in E; subst p'. exfalso. apply Hn. apply in_map_iff. exists (p, n). split; [reflexivity|exact Hin].
Qed.

(* ---------- well-formed trees ---------- *)
Record wf (t : tree) : Prop := {
  wf_nodup : nodup_paths t;
  wf_dirs : forall p, tlookup p t = Some FDir -> dir_path p;
  wf_files : forall p v, tlookup p t = Some (FFile v) -> exists k, bytes_ok k /\ p = file_path k
}.

Lemma wf_empty : wf [].
Proof. constructor; [constructor|intros p H; discriminate|intros p v H; discriminate]. Qed.

(* the abstraction: the value a key maps to *)
Definition absk (t : tree) (k : bytes) : option bytes :=
  match tlookup (file_path k) t with Some (FFile v) => Some v | _ => None end.

Lemma no_file_on_dir_path t q : wf t -> dir_path q -> (match tlookup q t with Some (FFile _) => true | _ => false end) = false.
Proof.
  intros W Hd. destruct (tlookup q t) as [[v|]|] eqn:E; try reflexivity.
  destruct (wf_files _ W _ _ E) as (k & Hk & Eq). exfalso. eapply dir_path_not_file_path; eauto.
Qed.

Lemma prefixes_no_file t k : wf t -> bytes_ok k ->
  existsb (fun d => match tlookup d t with Some (FFile _) => true | _ => false end) (prefixes (file_path k)) = false.
Proof.
  intros W Hk. destruct (existsb _ _) eqn:E; [|reflexivity].
  apply existsb_exists in E as (q & Hq & Hb).
  rewrite (no_file_on_dir_path t q W (prefix_is_dir_path k q Hk Hq)) in Hb. discriminate.
Qed.

Lemma file_path_not_dir t k : wf t -> bytes_ok k -> tlookup (file_path k) t <> Some FDir.
Proof.
  intros W Hk E. apply (wf_dirs _ W) in E. eapply dir_path_not_file_path; eauto.
Qed.

(* Get *)
Theorem get_spec t k : wf t -> bytes_ok k ->
  fs_get k t = match absk t k with Some v => FOk v | None => FErr ENotExist end.
Proof.
  intros W Hk. unfold fs_get, absk. rewrite (prefixes_no_file t k W Hk).
  destruct (tlookup (file_path k) t) as [[v|]|] eqn:E; try reflexivity.
  exfalso. eapply file_path_not_dir; eauto.
Qed.

(* MkdirAll of directory paths keeps the tree well formed and touches only directory paths *)
Lemma mkdirs_spec ds : forall t, wf t -> Forall dir_path ds ->
  exists t', mkdirs ds t = FOk t' /\ wf t' /\
    (forall p, ~ dir_path p -> tlookup p t' = tlookup p t).
Proof.
  induction ds as [|d ds IH]; intros t W Hds; cbn [mkdirs].
  - exists t. split; [reflexivity|]. split; [exact W|reflexivity].
  - inversion Hds as [|? ? Hd Hds']; subst.
    destruct (tlookup d t) as [[v|]|] eqn:E.
    + pose proof (no_file_on_dir_path t d W Hd) as H. rewrite E in H. discriminate.
    + apply IH; assumption.
    + assert (W' : wf (tset d FDir t)).
      { constructor.
        - apply nodup_tset, (wf_nodup _ W).
        - intros p Hp. destruct (path_eqb p d) eqn:Ep.
          + apply path_eqb_eq in Ep; subst; exact Hd.
          + rewrite tlookup_tset_other in Hp; [apply (wf_dirs _ W); exact Hp|].
            intros Hx; subst; rewrite path_eqb_refl in Ep; discriminate.
        - intros p v Hp. destruct (path_eqb p d) eqn:Ep.
          + apply path_eqb_eq in Ep; subst. rewrite tlookup_tset_same in Hp. discriminate.
          + rewrite tlookup_tset_other in Hp; [apply (wf_files _ W _ _ Hp)|].
            intros Hx; subst; rewrite path_eqb_refl in Ep; discriminate. }
      destruct (IH _ W' Hds') as (t' & Hm & Wt' & Hfr).
      exists t'. split; [exact Hm|]. split; [exact Wt'|].
      intros p Hp. rewrite Hfr by exact Hp. apply tlookup_tset_other. intros Hx; subst; contradiction.
Qed.

Lemma file_path_not_dir_path k : bytes_ok k -> ~ dir_path (file_path k).
Proof. intros Hk Hd. eapply dir_path_not_file_path; eauto. Qed.

(* Set *)
Theorem set_spec t k v : wf t -> bytes_ok k ->
  exists t', fs_set k v t = FOk t' /\ wf t' /\ absk t' k = Some v /\
    forall k', bytes_ok k' -> k' <> k -> absk t' k' = absk t k'.
Proof.
  intros W Hk. unfold fs_set.
  destruct (mkdirs_spec (prefixes (file_path k)) t W) as (t1 & Hm & W1 & Hfr).
  { rewrite Forall_forall. intros q Hq. eapply prefix_is_dir_path; eauto. }
  rewrite Hm.
  destruct (tlookup (file_path k) t1) as [[v0|]|] eqn:E; [| exfalso; eapply file_path_not_dir; eauto |].
  all: eexists; split; [reflexivity|]; split.
  all: try (constructor;
    [ apply nodup_tset, (wf_nodup _ W1)
    | intros p Hp; destruct (path_eqb p (file_path k)) eqn:Ep;
      [ apply path_eqb_eq in Ep; subst; rewrite tlookup_tset_same in Hp; discriminate
      | rewrite tlookup_tset_other in Hp; [apply (wf_dirs _ W1); exact Hp|intros Hx; subst; rewrite path_eqb_refl in Ep; discriminate] ]
    | intros p v' Hp; destruct (path_eqb p (file_path k)) eqn:Ep;
      [ apply path_eqb_eq in Ep; subst; exists k; split; [exact Hk|reflexivity]
      | rewrite tlookup_tset_other in Hp; [apply (wf_files _ W1 _ _ Hp)|intros Hx; subst; rewrite path_eqb_refl in Ep; discriminate] ] ]).
  all: split; [unfold absk; rewrite tlookup_tset_same; reflexivity|].
  all: intros k' Hk' Hne; unfold absk;
    rewrite tlookup_tset_other by (intros Hx; apply Hne; eapply file_path_injective; eauto);
    rewrite Hfr by (apply file_path_not_dir_path; exact Hk'); reflexivity.
Qed.

(* Delete *)
Theorem delete_spec t k : wf t -> bytes_ok k ->
  match absk t k with
  | None => fs_delete k t = FErr ENotExist
  | Some _ => exists t', fs_delete k t = FOk t' /\ wf t' /\ absk t' k = None /\
                forall k', bytes_ok k' -> k' <> k -> absk t' k' = absk t k'
  end.
Proof.
  intros W Hk. unfold fs_delete, absk. rewrite (prefixes_no_file t k W Hk).
  destruct (tlookup (file_path k) t) as [[v|]|] eqn:E; [| exfalso; eapply file_path_not_dir; eauto | reflexivity].
  eexists; split; [reflexivity|]. split.
  - constructor.
    + apply nodup_tremove, (wf_nodup _ W).
    + intros p Hp. destruct (path_eqb p (file_path k)) eqn:Ep.
      * apply path_eqb_eq in Ep; subst. rewrite tlookup_tremove_same in Hp. discriminate.
      * rewrite tlookup_tremove_other in Hp; [apply (wf_dirs _ W); exact Hp|intros Hx; subst; rewrite path_eqb_refl in Ep; discriminate].
    + intros p v' Hp. destruct (path_eqb p (file_path k)) eqn:Ep.
      * apply path_eqb_eq in Ep; subst. rewrite tlookup_tremove_same in Hp. discriminate.
      * rewrite tlookup_tremove_other in Hp; [apply (wf_files _ W _ _ Hp)|intros Hx; subst; rewrite path_eqb_refl in Ep; discriminate].
  - split; [rewrite tlookup_tremove_same; reflexivity|].
    intros k' Hk' Hne. rewrite tlookup_tremove_other; [reflexivity|].
    intros Hx; apply Hne; eapply file_path_injective; eauto.
Qed.

(* Keys: exactly the keys that have a value, with the prefix *)
Theorem keys_spec t p k : wf t ->
  In k (fs_keys p t) <-> (bytes_ok k /\ absk t k <> None /\ has_prefix p k = true).
Proof.
  intros W. unfold fs_keys. rewrite in_flat_map. split.
  - intros ([q n] & Hin & Hk). cbn [fst snd] in Hk. destruct n as [v|]; [|destruct Hk].
    pose proof (nodup_lookup t q (FFile v) (wf_nodup _ W) Hin) as Hl.
    destruct (wf_files _ W _ _ Hl) as (k0 & Hk0 & Eq). subst q.
    rewrite (key_of_file_path k0 Hk0) in Hk.
    destruct (has_prefix p k0) eqn:Ep; [|destruct Hk]. destruct Hk as [Hk|[]]. subst k0.
    split; [exact Hk0|]. split; [unfold absk; rewrite Hl; discriminate|exact Ep].
  - intros (Hk & Ha & Hp). unfold absk in Ha.
    destruct (tlookup (file_path k) t) as [[v|]|] eqn:E; try congruence.
    exists (file_path k, FFile v). split; [apply tlookup_In; exact E|].
    cbn [fst snd]. rewrite (key_of_file_path k Hk), Hp. left; reflexivity.
Qed.

(* ---------- operation sequences ---------- *)
Definition op_valid (o : sop) : Prop :=
  match o with
  | OSet k _ | OGet k | ODel k => bytes_ok k
  | OKeys _ | OReopen => True
  end.

Definition agree (t : tree) (m : kvmap) : Prop :=
  (forall k, bytes_ok k -> absk t k = alookup k m) /\ (forall k v, In (k, v) m -> bytes_ok k).

Definition res_same (a b : sres) : Prop :=
  match a, b with
  | RKeys l1, RKeys l2 => forall x, In x l1 <-> In x l2
  | _, _ => a = b
  end.

Lemma in_insert_sorted {A} le (x y : A) l : In y (insert_sorted le x l) <-> y = x \/ In y l.
Proof.
  induction l as [|z l IH]; cbn; [intuition congruence|].
  destruct (le x z); cbn; [intuition congruence|]. rewrite IH. intuition congruence.
Qed.
Lemma in_isort {A} le (l : list A) y : In y (isort le l) <-> In y l.
Proof. induction l as [|x l IH]; cbn; [tauto|]. rewrite in_insert_sorted, IH. intuition congruence. Qed.

Lemma aset_in_valid k v (m : kvmap) : bytes_ok k -> (forall k' v', In (k', v') m -> bytes_ok k') ->
  forall k' v', In (k', v') (aset k v m) -> bytes_ok k'.
Proof.
  intros Hk Hm. induction m as [|[k0 v0] m IH]; cbn; intros k' v' Hin.
  - destruct Hin as [Hin|[]]; inversion Hin; subst; exact Hk.
  - destruct (beq k k0); cbn in Hin; destruct Hin as [Hin|Hin].
    + inversion Hin; subst; exact Hk.
    + apply (Hm k' v'); right; exact Hin.
    + inversion Hin; subst. apply (Hm k' v'); left; reflexivity.
    + apply (IH (fun a b Hab => Hm a b (or_intror Hab)) k' v'); exact Hin.
Qed.

Lemma aremove_in k (m : kvmap) k' v' : In (k', v') (aremove k m) -> In (k', v') m.
Proof.
  induction m as [|[k0 v0] m IH]; cbn; [auto|]. destruct (beq k k0); cbn; [intros H; right; apply IH; exact H|].
  intros [H|H]; [left; exact H|right; apply IH; exact H].
Qed.

Lemma alookup_some_in (m : kvmap) k : (exists v, In (k, v) m) <-> alookup k m <> None.
Proof.
  split.
  - intros [v Hin]. induction m as [|[k0 v0] m IH]; [destruct Hin|]. cbn.
    destruct (beq k k0) eqn:E; [discriminate|]. destruct Hin as [Hin|Hin]; [inversion Hin; subst; rewrite beq_refl in E; discriminate|apply IH; exact Hin].
  - intros H. induction m as [|[k0 v0] m IH]; cbn in H; [congruence|].
    destruct (beq k k0) eqn:E.
    + apply beq_eq in E; subst. exists v0; left; reflexivity.
    + destruct (IH H) as [v Hv]. exists v; right; exact Hv.
Qed.

(* C14: on every sequence of operations the file-system model answers as the map does
   (key listings compared as sets), and stays well formed *)
Theorem fs_refines_map ops : forall t m, wf t -> agree t m -> Forall op_valid ops ->
  Forall2 res_same (run_ops fs_step t ops) (run_ops spec_step m ops).
Proof.
  induction ops as [|o ops IH]; intros t m W [Ha Hv] Hops; cbn [run_ops]; [constructor|].
  inversion Hops as [|? ? Ho Hops']; subst.
  destruct o as [k v|k|k|p|]; cbn [fs_step spec_step op_valid] in *.
  - destruct (set_spec t k v W Ho) as (t' & Hs & W' & Hk & Hfr). rewrite Hs.
    constructor; [reflexivity|]. apply IH; [exact W'| |exact Hops'].
    split.
    + intros k' Hk'. destruct (beq k' k) eqn:E.
      * apply beq_eq in E; subst. rewrite Hk, alookup_aset_same. reflexivity.
      * rewrite alookup_aset_other by exact E. rewrite Hfr; [apply Ha; exact Hk'|exact Hk'|].
        intros Hx; subst; rewrite beq_refl in E; discriminate.
    + apply aset_in_valid; assumption.
  - rewrite (get_spec t k W Ho), (Ha k Ho).
    constructor; [destruct (alookup k m); reflexivity|]. apply IH; [exact W|split; assumption|exact Hops'].
  - pose proof (delete_spec t k W Ho) as Hd. rewrite (Ha k Ho) in Hd. unfold amem.
    destruct (alookup k m) as [v|] eqn:El.
    + destruct Hd as (t' & Hdel & W' & Hk & Hfr). rewrite Hdel.
      constructor; [reflexivity|]. apply IH; [exact W'| |exact Hops'].
      split.
      * intros k' Hk'. destruct (beq k' k) eqn:E.
        -- apply beq_eq in E; subst. rewrite Hk, alookup_aremove_same. reflexivity.
        -- rewrite alookup_aremove_other by exact E. rewrite Hfr; [apply Ha; exact Hk'|exact Hk'|].
           intros Hx; subst; rewrite beq_refl in E; discriminate.
      * intros k' v' Hin. apply (Hv k' v'). eapply aremove_in; exact Hin.
    + rewrite Hd. constructor; [reflexivity|].
      apply IH; [exact W| |exact Hops'].
      split.
      * intros k' Hk'. destruct (beq k' k) eqn:E.
        -- apply beq_eq in E; subst. rewrite alookup_aremove_same. rewrite (Ha k Ho). exact El.
        -- rewrite alookup_aremove_other by exact E. apply Ha; exact Hk'.
      * intros k' v' Hin. apply (Hv k' v'). eapply aremove_in; exact Hin.
  - constructor; [|apply IH; [exact W|split; assumption|exact Hops']].
    cbn [res_same]. intros x. unfold sort_bytes. rewrite !in_isort. rewrite (keys_spec t p x W).
    rewrite in_map_iff. split.
    + intros (Hx & Habs & Hp). rewrite (Ha x Hx) in Habs.
      apply alookup_some_in in Habs as [v Hin]. exists (x, v). split; [reflexivity|].
      apply filter_In. split; [exact Hin|exact Hp].
    + intros ([x' v] & Ex & Hin). cbn in Ex; subst x'. apply filter_In in Hin as [Hin Hp]. cbn in Hp.
      pose proof (Hv x v Hin) as Hx. split; [exact Hx|]. split; [|exact Hp].
      rewrite (Ha x Hx). apply alookup_some_in. exists v; exact Hin.
  - constructor; [reflexivity|]. apply IH; [exact W|split; assumption|exact Hops'].
Qed.
