(* FootProofs.v — the footprint of the store over whole histories (C19).

   Invariant [InvF P Vs]: every key of the store is
     - an index key: the URL key u of a request that was sent to the origin, holding a list of references without
       null elements and without two references to one response id, each reference filed for a pair (u, m) where m
       is the variant map that a request sent to the origin for u resolves to under a Vary value in play; or
     - an entry key: make_vary_key u m for such a pair, holding an entry whose own Vary values are in play.
   [P]: the requests sent to the origin; [Vs]: the Vary field values in play (the empty one, and those of the origin's
   replies).  The tree predicate [SafeF] says what a RoundTrip program does with the store given what the invariant
   promises about its answers; it is proved of [round_trip q] for every q, and [run], [run_pending], [exchange],
   [run_history] preserve the invariant.  The counting lemma at the end turns the invariant into a bound on the number
   of keys and on the length of every index that depends on the number of distinct (request, Vary value) pairs only. *)
From HC Require Import Transport Run.
From HC.Proofs Require Import Paths HeaderProofs RunProofs IndexProofs StoreProofs3 ProvProofs.
Open Scope Z_scope.

(* ---------- association lists: where a binding of the result comes from ---------- *)
Lemma alookup_in {V} k (v : V) m : alookup k m = Some v -> In (k, v) m.
Proof.
  induction m as [|[k' v'] m IH]; cbn; [discriminate|]. destruct (beq k k') eqn:E.
  - intros H. injection H as <-. apply beq_eq in E. subst. left. reflexivity.
  - intros H. right. apply IH, H.
Qed.
Lemma in_aremove {V} k n (v : V) m : In (k, v) (aremove n m) -> In (k, v) m.
Proof.
  induction m as [|[k' v'] m IH]; cbn; [tauto|]. destruct (beq n k'); [intros H; right; auto|].
  intros [H|H]; [left; exact H|right; auto].
Qed.
Lemma in_aset {V} k n (v w : V) m : In (k, v) (aset n w m) -> (k, v) = (n, w) \/ In (k, v) m.
Proof.
  induction m as [|[k' v'] m IH]; cbn.
  - intros [H|[]]. left. symmetry. exact H.
  - destruct (beq n k').
    + intros [H|H]; [left; symmetry; exact H|right; right; exact H].
    + intros [H|H]; [right; left; exact H|]. destruct (IH H) as [E|E]; [left; exact E|right; right; exact E].
Qed.

Definition vary_name : bytes := bs "Vary".

Section Foot.
  Variable P : request -> Prop.         (* the requests sent to the origin *)
  Variable Vs : list bytes -> Prop.     (* the Vary field values (lists of field lines) in play *)
  Hypothesis Vs_nil : Vs [].

  (* every binding of Vary in a header block is in play *)
  Definition varyF (h : headers) : Prop := forall v, In (vary_name, v) h -> Vs v.

  Lemma varyF_values h : varyF h -> Vs (hvalues vary_name h).
  Proof.
    intros H. unfold hvalues. destruct (alookup vary_name h) as [v|] eqn:E; [|exact Vs_nil].
    apply H. apply alookup_in, E.
  Qed.
  Lemma varyF_remove_hop h : varyF h -> varyF (remove_hop_by_hop h).
  Proof.
    intros H v Hv. apply H. unfold remove_hop_by_hop in Hv. revert Hv.
    generalize (hop_by_hop_headers h). intros ns. revert h H. induction ns as [|n ns IH]; intros h H Hv; cbn in Hv; [exact Hv|].
    eapply in_aremove. eapply IH; [|exact Hv]. intros v' Hv'. apply H. eapply in_aremove, Hv'.
  Qed.
  Lemma varyF_merge stored fresh : varyF stored -> varyF fresh -> varyF (update_stored_headers stored fresh).
  Proof.
    intros Hs Hf. unfold update_stored_headers. generalize (bs "Content-Length" :: hop_by_hop_headers fresh). intros om.
    revert stored Hs. induction fresh as [|[k w] fresh IH]; intros stored Hs; cbn [fold_left fst snd]; [exact Hs|].
    apply IH.
    - intros v Hv. apply Hf. right. exact Hv.
    - destruct (in_names k om); [exact Hs|]. intros v Hv. apply in_aset in Hv as [E|Hv]; [|apply Hs, Hv].
      injection E as <- <-. apply Hf. left. reflexivity.
  Qed.
  Lemma varyF_fix_date h b : varyF h -> varyF (fix_date_header h b).
  Proof.
    intros H. unfold fix_date_header.
    assert (Hset : forall d, varyF (hset (bs "Date") d h)).
    { intros d v Hv. unfold hset in Hv. apply in_aset in Hv as [E|Hv]; [|apply H, Hv].
      exfalso. injection E as E _. vm_compute in E. discriminate. }
    destruct (raw_time _) as [t|]; [destruct (t =? go_zero_time)|]; auto.
  Qed.

  Section Key.
  Variable u : bytes.                   (* the URL key of the request this program serves *)

  (* k is the key of a (URL key, variant) pair: the variant map a request sent to the origin for u resolves to under a
     Vary value in play *)
  Definition pairF (k : bytes) : Prop :=
    exists q0 v m, P q0 /\ make_url_key (q_url q0) = u /\ Vs v /\
                   normalize_vary (join [44] v) (q_hdr q0) = Some m /\ k = make_vary_key u m.
  Definition refF (x : option ref) : Prop := exists r, x = Some r /\ pairF (r_id r).
  Definition requested : Prop := exists q0, P q0 /\ make_url_key (q_url q0) = u.

  Inductive SafeF {A : Type} : prog A -> Prop :=
  | FF_Ret a : SafeF (Ret a)
  | FF_GetRefs k c : (forall ans, (k = u -> forall l, ans = Some l -> Forall refF l) -> SafeF (c ans)) -> SafeF (GetRefs k c)
  | FF_GetEntry k c : (forall ans, (forall e, ans = Some e -> varyF (e_hdr e)) -> SafeF (c ans)) -> SafeF (GetEntry k c)
  | FF_SetEntry k e c : pairF k -> varyF (e_hdr e) -> SafeF c -> SafeF (SetEntry k e c)
  | FF_SetRefs k l c : k = u -> requested -> Forall refF l -> NoDup (some_ids l) -> SafeF c -> SafeF (SetRefs k l c)
  | FF_Del k c : SafeF c -> SafeF (Del k c)
  | FF_Origin q c : make_url_key (q_url q) = u ->
      (forall rep, P q -> (forall r, rep = RResp r -> varyF (p_hdr r)) -> SafeF (c rep)) -> SafeF (Origin q c)
  | FF_Now c : (forall t, SafeF (c t)) -> SafeF (Now c)
  | FF_Spawn p c : SafeF p -> SafeF c -> SafeF (Spawn p c)
  | FF_Crash : SafeF Crash
  | FF_Unmodelled : SafeF Unmodelled.

  Lemma SafeF_bind {A B} (p : prog A) (f : A -> prog B) : SafeF p -> (forall a, SafeF (f a)) -> SafeF (bind p f).
  Proof. intros Hp Hf. induction Hp; cbn [bind]; try (constructor; auto; fail). apply Hf. Qed.

  Definition SafeF_inv {A} (p : prog A) : Prop :=
    match p with
    | Ret a => True
    | GetRefs k c => forall ans, (k = u -> forall l, ans = Some l -> Forall refF l) -> SafeF (c ans)
    | GetEntry k c => forall ans, (forall e, ans = Some e -> varyF (e_hdr e)) -> SafeF (c ans)
    | SetEntry k e c => pairF k /\ varyF (e_hdr e) /\ SafeF c
    | SetRefs k l c => k = u /\ requested /\ Forall refF l /\ NoDup (some_ids l) /\ SafeF c
    | Del k c => SafeF c
    | Origin q c => make_url_key (q_url q) = u /\ forall rep, P q -> (forall r, rep = RResp r -> varyF (p_hdr r)) -> SafeF (c rep)
    | Now c => forall t, SafeF (c t)
    | Spawn b c => SafeF b /\ SafeF c
    | Crash => True
    | Unmodelled => True
    end.
  Lemma SafeF_inversion {A} (p : prog A) : SafeF p -> SafeF_inv p.
  Proof. destruct 1; cbn; auto. Qed.

  (* ---------- the transport functions ---------- *)
  Lemma Forall_unique_refs (Q : option ref -> Prop) l : Forall Q l -> Forall Q (unique_refs l).
  Proof. rewrite !Forall_forall. intros H x Hx. apply H. apply unique_refs_in, Hx. Qed.
  Lemma Forall_replace_nth {X} (Q : X -> Prop) n y l : Q y -> Forall Q l -> Forall Q (replace_nth n y l).
  Proof.
    intros Hy Hl. rewrite Forall_forall in *. intros x Hx. apply replace_nth_in in Hx as [->|Hx]; auto.
  Qed.
  Lemma Forall_drop_nil (Q : option ref -> Prop) l : Forall Q l -> Forall Q (drop_nil_refs l).
  Proof. induction 1 as [|[r|] l Hx Hl IH]; cbn; auto. Qed.

  Lemma store_response_safeF q r refs a b i :
    P q -> make_url_key (q_url q) = u -> varyF (p_hdr r) -> Forall refF refs ->
    SafeF (store_response q r u refs a b i).
  Proof.
    intros Hp Hu Hv Hr. unfold store_response. cbn [p_hdr with_hdr p_body_ok].
    pose proof (varyF_remove_hop _ Hv) as Hv1.
    destruct (normalize_vary _ _) as [m|] eqn:En; [|constructor].
    assert (Hpair : pairF (make_vary_key u m)).
    { exists q, (hvalues vary_name (remove_hop_by_hop (p_hdr r))), m.
      split; [exact Hp|split; [exact Hu|split; [apply varyF_values, Hv1|split; [exact En|reflexivity]]]]. }
    set (nr := Some {| r_id := make_vary_key u m; r_vary := _; r_resolved := m; r_recv := _ |}).
    assert (Hnr : refF nr) by (eexists; split; [reflexivity|exact Hpair]).
    assert (Hrefs : Forall refF (unique_refs
       (if (i <? 0) || (Z.of_nat (List.length refs) <=? i) then refs ++ [nr] else replace_nth (Z.to_nat i) nr refs))).
    { apply Forall_unique_refs. destruct (_ || _).
      - apply Forall_app. split; [exact Hr|constructor; [exact Hnr|constructor]].
      - apply Forall_replace_nth; assumption. }
    assert (Hreq : requested) by (exists q; split; assumption).
    destruct (p_body_ok r).
    - apply FF_SetEntry; [exact Hpair|exact Hv1|].
      apply FF_SetRefs; [reflexivity|exact Hreq|exact Hrefs|apply unique_refs_nodup|constructor].
    - apply FF_SetRefs; [reflexivity|exact Hreq|exact Hrefs|apply unique_refs_nodup|constructor].
  Qed.

  Lemma del_all_safeF {A} ks : forall done (c : list bytes -> prog A),
    (forall d, SafeF (c d)) -> SafeF (del_all ks done c).
  Proof. induction ks as [|k ks IH]; intros done c H; cbn; auto. destruct (existsb _ _); auto. constructor; auto. Qed.

  Lemma invalidate_locations_safeF {A} ru h hs : forall done (c : list bytes -> prog A),
    (forall d, SafeF (c d)) -> SafeF (invalidate_locations hs ru h done c).
  Proof.
    induction hs as [|hn hs IH]; intros done c Hc; cbn [invalidate_locations]; auto.
    destruct (hget hn h); [apply IH, Hc|]. destruct (parse_url _); [|constructor].
    destruct (same_origin _ _); [|apply IH, Hc].
    unfold get_refs_clean. constructor. intros ans _. destruct (ref_ids _); [|constructor].
    apply del_all_safeF. intros d'. apply IH, Hc.
  Qed.

  Lemma invalidate_cache_safeF {A} ru h refs key (c : prog A) : SafeF c -> SafeF (invalidate_cache ru h refs key c).
  Proof.
    intros Hc. unfold invalidate_cache. destruct (ref_ids _); [|constructor].
    apply del_all_safeF. intros d. apply invalidate_locations_safeF. intros d'. apply del_all_safeF. auto.
  Qed.

  Lemma hvr_safeF ctx q rep :
    P q -> make_url_key (q_url q) = u -> rc_url_key ctx = u ->
    varyF (e_hdr (rc_stored ctx)) -> Forall refF (rc_refs ctx) ->
    (forall r, rep = RResp r -> varyF (p_hdr r)) ->
    SafeF (handle_validation_response ctx q rep).
  Proof.
    intros Hp Hq Hu Hst Hrefs Hrep. unfold handle_validation_response. rewrite Hu.
    destruct rep as [|r].
    - cbn [andb]. match goal with |- SafeF (if ?c then _ else _) => destruct c end; [|constructor].
      constructor. intros now. destruct (can_stale_on_error _ _ _); constructor.
    - specialize (Hrep r eq_refl).
      destruct (is_get (q_method q) && (p_status r =? 304)).
      + destruct (_ || _); [constructor|].
        apply SafeF_bind; [|intros; constructor].
        apply store_response_safeF; [exact Hp|exact Hq| |exact Hrefs].
        cbn [response_of entry_with_hdr p_hdr e_hdr]. apply varyF_merge; assumption.
      + assert (Hafter : SafeF
          (let cc_resp := parse_cc (p_hdr r) in
           if can_store_response r (rc_cc_req ctx) cc_resp
           then r1 <- store_response q r u (rc_refs ctx) (rc_start ctx) (rc_end ctx) (rc_ref_index ctx);;
                Ret (OResp (with_hdr r1 (apply_status MISS (p_hdr r1))))
           else if is_unsafe_method (q_method q) && is_non_error_status (p_status r)
                then invalidate_cache (q_url q) (p_hdr r) (rc_refs ctx) u
                       (Ret (OResp (with_hdr r (apply_status BYPASS (p_hdr r)))))
                else Ret (OResp (with_hdr r (apply_status BYPASS (p_hdr r)))))).
        { cbv zeta. destruct (can_store_response _ _ _).
          - apply SafeF_bind; [apply store_response_safeF; assumption|intros; constructor].
          - destruct (_ && _); [apply invalidate_cache_safeF|]; constructor. }
        match goal with |- SafeF (if ?c then _ else _) => destruct c end; [|exact Hafter].
        constructor. intros now. destruct (can_stale_on_error _ _ _); [constructor|exact Hafter].
  Qed.

  Lemma rtt_safeF {A} q (c : origin_reply -> Z -> Z -> prog A) :
    make_url_key (q_url q) = u ->
    (forall rep a b, P q -> (forall r, rep = RResp r -> varyF (p_hdr r)) -> SafeF (c rep a b)) ->
    SafeF (round_trip_timed q c).
  Proof.
    intros Hu Hc. unfold round_trip_timed. constructor. intros a. apply FF_Origin; [exact Hu|].
    intros rep Hp Hrep. constructor. intros b. destruct rep as [|r]; apply Hc; try exact Hp.
    - intros r0 E. discriminate.
    - intros r0 E. injection E as <-. cbn [with_hdr p_hdr]. apply varyF_fix_date. apply Hrep. reflexivity.
  Qed.

  Lemma miss_safeF q refs i : make_url_key (q_url q) = u -> Forall refF refs -> SafeF (handle_cache_miss q u refs i).
  Proof.
    intros Hu Hr. unfold handle_cache_miss. destruct (req_only_if_cached _); [constructor|].
    apply rtt_safeF; [exact Hu|]. intros [|r] a b Hp Hrep; [constructor|]. cbv zeta.
    destruct (_ && _); [|constructor].
    apply SafeF_bind; [apply store_response_safeF; auto|intros; constructor].
  Qed.

  Lemma bg_safeF q stored f cc : make_url_key (q_url q) = u -> SafeF (background_revalidate q stored u f cc).
  Proof.
    intros Hu. unfold background_revalidate. apply rtt_safeF; [exact Hu|].
    intros [|r] a b Hp Hrep; [constructor|].
    constructor. intros own Hown. destruct own as [own|]; [|constructor].
    destruct (_ && _); [constructor|].
    unfold get_refs_clean. constructor. intros ans Hans.
    apply SafeF_bind; [|intros; constructor].
    apply hvr_safeF; cbn [rc_url_key rc_stored rc_refs]; auto.
    destruct ans as [l|]; cbn [option_map]; [|constructor].
    apply Forall_drop_nil. apply Hans; reflexivity.
  Qed.

  Lemma hit_safeF q stored refs i : make_url_key (q_url q) = u -> varyF (e_hdr stored) -> Forall refF refs ->
    SafeF (handle_cache_hit q stored u refs i).
  Proof.
    intros Hu Hv Hr. unfold handle_cache_hit. constructor. intros now. cbv zeta.
    destruct (decide_hit q stored now).
    - constructor.
    - unfold handle_stale_while_revalidate. apply FF_Spawn; [apply bg_safeF; exact Hu|constructor].
    - constructor.
    - apply rtt_safeF; [exact Hu|]. intros rep a b Hp Hrep.
      apply hvr_safeF; cbn [rc_url_key rc_stored rc_refs]; auto.
  Qed.
  End Key.

  Theorem round_trip_safeF q : SafeF (make_url_key (q_url q)) (round_trip q).
  Proof.
    set (u := make_url_key (q_url q)). unfold round_trip. fold u.
    destruct (is_request_method_understood q); cbn [negb]; cycle 1.
    - unfold handle_unrecognized_method. destruct (req_only_if_cached _); [constructor|]. apply FF_Origin; [reflexivity|]. intros [|r] _ _; [constructor|].
      destruct (_ && _); [|constructor]. unfold get_refs_clean. constructor. intros ans _.
      apply invalidate_cache_safeF. constructor.
    - unfold get_refs_clean. constructor. intros ans Hans.
      destruct ans as [l|]; cbn [option_map]; [|apply miss_safeF; [reflexivity|constructor]].
      assert (Hl : Forall (refF u) (drop_nil_refs l)) by (apply Forall_drop_nil, Hans; reflexivity).
      destruct (drop_nil_refs l) as [|x l'] eqn:El; [apply miss_safeF; [reflexivity|constructor]|].
      destruct (has_nil_ref (x :: l')); [constructor|].
      destruct (vary_headers_match (strip_refs (x :: l')) (q_hdr q)) as [[sorted oi]|] eqn:Ev; [|constructor].
      assert (Hs : Forall (refF u) (map Some sorted)).
      { rewrite Forall_forall in *. intros y Hy. apply in_map_iff in Hy as (r' & <- & Hin).
        unfold vary_headers_match in Ev. destruct (find_match _ _ _ _); [|discriminate]. injection Ev as <- _.
        unfold sort_refs in Hin. apply in_isort in Hin. apply Hl. apply strip_refs_in, Hin. }
      destruct oi as [i|]; [|apply miss_safeF; [reflexivity|exact Hs]].
      destruct (nth_error sorted (Z.to_nat i)) as [r|]; [|constructor].
      constructor. intros e He. destruct e as [stored|]; [|apply miss_safeF; [reflexivity|exact Hs]].
      apply hit_safeF; [reflexivity|apply He; reflexivity|exact Hs].
  Qed.

  (* ---------- the invariant of the store ---------- *)
  Definition InvF (s : store) : Prop :=
    (forall k e, get_entry s k = Some e -> varyF (e_hdr e) /\ exists u, pairF u k) /\
    (forall u l, get_refs s u = Some l -> requested u /\ Forall (refF u) l /\ NoDup (some_ids l)).

  Lemma InvF_empty : InvF [].
  Proof. split; intros ? ? H; discriminate. Qed.
  Lemma InvF_set_entry s u k e : InvF s -> pairF u k -> varyF (e_hdr e) -> InvF (aset k (SEntry e) s).
  Proof.
    intros [I1 I2] Hk He. split.
    - intros k' e' H. destruct (beq k' k) eqn:E.
      + apply beq_eq in E. subst k'. rewrite get_entry_aset_same in H. injection H as <-. split; [exact He|exists u; exact Hk].
      + rewrite get_entry_aset_other in H by exact E. apply I1, H.
    - intros u' l H. destruct (beq u' k) eqn:E.
      + apply beq_eq in E. subst u'. rewrite get_refs_aset_entry in H. discriminate.
      + rewrite get_refs_aset_other in H by exact E. apply I2, H.
  Qed.
  Lemma InvF_set_refs s u l : InvF s -> requested u -> Forall (refF u) l -> NoDup (some_ids l) -> InvF (aset u (SRefs l) s).
  Proof.
    intros [I1 I2] Hq Hl Hn. split.
    - intros k' e' H. destruct (beq k' u) eqn:E.
      + apply beq_eq in E. subst k'. rewrite get_entry_aset_refs in H. discriminate.
      + rewrite get_entry_aset_other in H by exact E. apply I1, H.
    - intros u' l' H. destruct (beq u' u) eqn:E.
      + apply beq_eq in E. subst u'. rewrite get_refs_aset_same in H. injection H as <-. auto.
      + rewrite get_refs_aset_other in H by exact E. apply I2, H.
  Qed.
  Lemma InvF_del s k : InvF s -> InvF (aremove k s).
  Proof.
    intros [I1 I2]. split.
    - intros k' e' H. rewrite get_entry_aremove in H. destruct (beq k' k); [discriminate|]. apply I1, H.
    - intros u' l H. rewrite get_refs_aremove in H. destruct (beq u' k); [discriminate|]. apply (I2 u' l H).
  Qed.
End Foot.

(* ---------- the semantic side ---------- *)
(* the Vary values in play after the events L: the empty one, and every binding of Vary in a reply of the origin *)
Definition VsL (L : list event) (v : list bytes) : Prop :=
  v = [] \/ exists idx q a b r, In (EvCall idx q a b (RResp r)) L /\ In (vary_name, v) (p_hdr r).
Lemma VsL_nil L : VsL L [].
Proof. left. reflexivity. Qed.

Lemma do_origin_reply' limit q w : exists idx,
  w_log (snd (do_origin limit q w)) =
    EvCall idx q (w_clock w) (w_clock (snd (do_origin limit q w))) (fst (do_origin limit q w)) :: w_log w /\
  w_store (snd (do_origin limit q w)) = w_store w /\ w_pending (snd (do_origin limit q w)) = w_pending w.
Proof.
  unfold do_origin. destruct (w_script w) as [|[[d r0] rc] t]; destruct limit as [T|]; cbn;
    try destruct (T <? _); cbn; eexists; repeat split.
Qed.

Definition pend_okF (Lf : list event) (p : prog unit) : Prop := exists u, SafeF (Pl Lf) (VsL Lf) u p.

Lemma run_safeF {A} (p : prog A) : forall u Lf limit w res w',
  SafeF (Pl Lf) (VsL Lf) u p -> InvF (Pl Lf) (VsL Lf) (w_store w) -> Forall (pend_okF Lf) (w_pending w) ->
  run limit p w = (res, w') -> incl (w_log w') Lf ->
  InvF (Pl Lf) (VsL Lf) (w_store w') /\ Forall (pend_okF Lf) (w_pending w').
Proof.
  induction p as [A0 a|A0 k c IH|A0 k c IH|A0 k e c IH|A0 k l c IH|A0 k c IH|A0 r c IH|A0 c IH|A0 b IHb c IHc|A0|A0];
    intros u Lf limit w res w' HS HI HP H Hincl; cbn [run] in H; apply SafeF_inversion in HS; cbn [SafeF_inv] in HS.
  - injection H as _ <-. split; assumption.
  - refine (IH _ u Lf limit _ res w' _ _ _ H Hincl); [|exact HI|exact HP]. apply HS.
    intros -> l Hl. destruct HI as [_ I2]. apply (I2 _ _ Hl).
  - refine (IH _ u Lf limit _ res w' _ _ _ H Hincl); [|exact HI|exact HP]. apply HS.
    intros e0 He. destruct HI as [I1 _]. apply (I1 _ _ He).
  - destruct HS as (Hk & He & HS). refine (IH u Lf limit _ res w' HS _ _ H Hincl); [|exact HP]. cbn. eapply InvF_set_entry; eassumption.
  - destruct HS as (-> & Hq & Hl & Hn & HS). refine (IH u Lf limit _ res w' HS _ _ H Hincl); [|exact HP]. cbn. apply InvF_set_refs; assumption.
  - refine (IH u Lf limit _ res w' HS _ _ H Hincl); [|exact HP]. cbn. apply InvF_del; assumption.
  - destruct HS as [Hu HS].
    destruct (do_origin_reply' limit r w) as (idx & Hl & Hst & Hpe). destruct (do_origin limit r w) as [rep w1] eqn:Ed. cbn [fst snd] in *.
    destruct (run_log_mono _ _ _ _ _ H) as [[y Hy] _].
    assert (Hin : In (EvCall idx r (w_clock w) (w_clock w1) rep) Lf).
    { apply Hincl. rewrite Hy, Hl. apply in_or_app. right. left. reflexivity. }
    refine (IH _ u Lf limit _ res w' _ _ _ H Hincl); [|rewrite Hst; exact HI|rewrite Hpe; exact HP]. apply HS.
    + exists idx, (w_clock w), (w_clock w1), rep. exact Hin.
    + intros r0 E v Hv. subst rep. right. exists idx, r, (w_clock w), (w_clock w1), r0. split; assumption.
  - refine (IH _ u Lf limit _ res w' _ HI HP H Hincl). apply HS.
  - destruct HS as [Hb HS]. refine (IHc u Lf limit _ res w' HS _ _ H Hincl); [exact HI|]. cbn. apply Forall_app. split; [exact HP|].
    constructor; [exists u; exact Hb|constructor].
  - injection H as _ <-. split; assumption.
  - injection H as _ <-. split; assumption.
Qed.

Lemma run_pending_safeF Lf T ps : forall w ok w', Forall (pend_okF Lf) ps -> InvF (Pl Lf) (VsL Lf) (w_store w) ->
  Forall (pend_okF Lf) (w_pending w) ->
  run_pending T ps w = (ok, w') -> incl (w_log w') Lf -> InvF (Pl Lf) (VsL Lf) (w_store w').
Proof.
  induction ps as [|p r IH]; intros w ok w' Hps HI HP H Hincl; cbn [run_pending] in H.
  - injection H as _ <-. exact HI.
  - inversion Hps as [|? ? [u Hp] Hr]; subst. destruct (run (Some T) p w) as [res w1] eqn:E.
    assert (Hincl1 : incl (w_log w1) Lf).
    { destruct res.
      - destruct (run_pending_log_mono _ _ _ _ _ H) as [y Hy]. intros x Hx. apply Hincl. rewrite Hy. apply in_or_app. right. exact Hx.
      - injection H as _ <-. exact Hincl.
      - injection H as _ <-. exact Hincl. }
    destruct (run_safeF p u Lf (Some T) w res w1 Hp HI HP E Hincl1) as (HI1 & HP1).
    destruct res.
    + eapply IH; [exact Hr|exact HI1|exact HP1|exact H|exact Hincl].
    + injection H as _ <-. exact HI1.
    + injection H as _ <-. exact HI1.
Qed.

Theorem exchange_safeF Lf cfg q w obs w' :
  InvF (Pl Lf) (VsL Lf) (w_store w) -> exchange cfg q w = (obs, w') ->
  incl (x_events obs ++ x_bg_events obs) Lf ->
  InvF (Pl Lf) (VsL Lf) (w_store w').
Proof.
  intros HI H Hincl. unfold exchange in H.
  destruct (run None (round_trip q) (clear_log_pending w)) as [res w1] eqn:E1.
  destruct (run_pending (effective_swr_timeout (cfg_swr_timeout cfg)) (w_pending w1) (clear_log_pending w1)) as [ok w2] eqn:E2.
  injection H as <- <-. cbn [x_events x_bg_events] in *.
  assert (Hfg : incl (w_log w1) Lf).
  { apply incl_rev_l. intros x Hx. apply Hincl. apply in_or_app. left. exact Hx. }
  assert (Hbg : incl (w_log w2) Lf).
  { apply incl_rev_l. intros x Hx. apply Hincl. apply in_or_app. right. exact Hx. }
  destruct (run_safeF (round_trip q) (make_url_key (q_url q)) Lf None
              (clear_log_pending w) res w1 (round_trip_safeF (Pl Lf) (VsL Lf) (VsL_nil Lf) q) HI (Forall_nil _) E1 Hfg) as (HI1 & HP1).
  exact (run_pending_safeF Lf _ _ (clear_log_pending w1) ok w2 HP1 HI1 (Forall_nil _) E2 Hbg).
Qed.

(* the world after a whole history *)
Fixpoint world_after (cfg : config) (h : history) (w : world) : world :=
  match h with
  | [] => w
  | (gap, q) :: r =>
      let w' := {| w_store := w_store w; w_clock := w_clock w + gap; w_script := w_script w;
                   w_calls := w_calls w; w_log := []; w_pending := [] |} in
      world_after cfg r (snd (exchange cfg q w'))
  end.

Theorem history_safeF Lf cfg h : forall w,
  InvF (Pl Lf) (VsL Lf) (w_store w) ->
  incl (flat_map (fun o => x_events o ++ x_bg_events o) (run_history cfg h w)) Lf ->
  InvF (Pl Lf) (VsL Lf) (w_store (world_after cfg h w)).
Proof.
  induction h as [|[gap q] h IH]; intros w HI Hincl; [exact HI|].
  cbn [run_history world_after] in *.
  destruct (exchange cfg q {| w_store := w_store w; w_clock := w_clock w + gap; w_script := w_script w;
                              w_calls := w_calls w; w_log := []; w_pending := [] |}) as [obs w2] eqn:E.
  cbn [flat_map snd] in *.
  apply IH.
  - eapply exchange_safeF; [|exact E|]; [exact HI|]. intros x Hx. apply Hincl. apply in_or_app. left. exact Hx.
  - intros x Hx. apply Hincl. apply in_or_app. right. exact Hx.
Qed.

(* ---------- counting ---------- *)
(* the candidate keys for a list of requests and a list of Vary values: the URL key of every request, and the key of
   every variant a request resolves to under one of the values *)
Definition variant_keys (q0 : request) (varies : list (list bytes)) : list bytes :=
  flat_map (fun v => match normalize_vary (join [44] v) (q_hdr q0) with
                     | Some m => [make_vary_key (make_url_key (q_url q0)) m]
                     | None => []
                     end) varies.
Definition candidate_keys (reqs : list request) (varies : list (list bytes)) : list bytes :=
  flat_map (fun q0 => make_url_key (q_url q0) :: variant_keys q0 varies) reqs.

Lemma variant_keys_length q0 varies : (List.length (variant_keys q0 varies) <= List.length varies)%nat.
Proof.
  unfold variant_keys. induction varies as [|v vs IH]; cbn [flat_map]; [apply le_n|].
  rewrite app_length. destruct (normalize_vary _ _); cbn [List.length]; lia.
Qed.
Lemma candidate_keys_length reqs varies :
  (List.length (candidate_keys reqs varies) <= List.length reqs * (1 + List.length varies))%nat.
Proof.
  unfold candidate_keys. induction reqs as [|q0 rs IH]; cbn [flat_map]; [apply le_n|].
  rewrite app_length. cbn [List.length]. pose proof (variant_keys_length q0 varies). lia.
Qed.

(* two requests with the same URL key and the same header block resolve alike: the candidates depend on the
   distinct (URL key, header block) pairs only *)
Section Count.
  Variable Lf : list event.
  Variable reqs : list request.
  Variable varies : list (list bytes).
  (* every request sent to the origin has the URL key and the header block of one of [reqs] ... *)
  Hypothesis reqs_cover : forall q0, Pl Lf q0 ->
    exists q1, In q1 reqs /\ make_url_key (q_url q1) = make_url_key (q_url q0) /\ q_hdr q1 = q_hdr q0.
  (* ... and every Vary value of a reply is one of [varies] (with the empty one) *)
  Hypothesis varies_cover : forall v, VsL Lf v -> In v varies.

  Lemma pairF_candidate u k : pairF (Pl Lf) (VsL Lf) u k -> In k (candidate_keys reqs varies).
  Proof.
    intros (q0 & v & m & Hp & Hu & Hv & Hn & ->).
    destruct (reqs_cover q0 Hp) as (q1 & Hin & Hu1 & Hh1).
    unfold candidate_keys. apply in_flat_map. exists q1. split; [exact Hin|]. right.
    unfold variant_keys. apply in_flat_map. exists v. split; [apply varies_cover, Hv|].
    rewrite Hh1, Hn, Hu1, Hu. left. reflexivity.
  Qed.
  Lemma requested_candidate u : requested (Pl Lf) u -> In u (candidate_keys reqs varies).
  Proof.
    intros (q0 & Hp & Hu). destruct (reqs_cover q0 Hp) as (q1 & Hin & Hu1 & _).
    unfold candidate_keys. apply in_flat_map. exists q1. split; [exact Hin|]. left. congruence.
  Qed.

  (* every key of a store satisfying the invariant is a candidate *)
  Theorem footprint_keys s k : InvF (Pl Lf) (VsL Lf) s -> amem k s = true -> In k (candidate_keys reqs varies).
  Proof.
    intros [I1 I2] H. unfold amem in H. destruct (alookup k s) as [[l|e]|] eqn:E; [| |discriminate].
    - assert (Hr : get_refs s k = Some l) by (unfold get_refs; rewrite E; reflexivity).
      destruct (I2 _ _ Hr) as (Hq & _). apply requested_candidate, Hq.
    - assert (He : get_entry s k = Some e) by (unfold get_entry; rewrite E; reflexivity).
      destruct (I1 _ _ He) as (_ & u & Hp). eapply pairF_candidate, Hp.
  Qed.

  (* every index lists only candidates, each at most once, and nothing else: its length is bounded by their number *)
  Theorem footprint_index s u l : InvF (Pl Lf) (VsL Lf) s -> get_refs s u = Some l ->
    (List.length l <= List.length (candidate_keys reqs varies))%nat.
  Proof.
    intros [_ I2] H. destruct (I2 _ _ H) as (_ & Hl & Hn).
    assert (Hlen : List.length l = List.length (some_ids l)).
    { clear Hn H. induction Hl as [|x l (r & -> & _) _ IH]; [reflexivity|]. cbn. f_equal. exact IH. }
    rewrite Hlen. apply NoDup_incl_length; [exact Hn|].
    intros id Hid. apply in_some_ids in Hid as (r & Hin & <-).
    rewrite Forall_forall in Hl. destruct (Hl _ Hin) as (r' & E & Hp). injection E as <-.
    eapply pairF_candidate, Hp.
  Qed.
End Count.

(* ---------- the requests and Vary values of a log, as lists (to discharge the covering hypotheses by computation) ---------- *)
Definition call_requests (L : list event) : list request :=
  flat_map (fun ev => match ev with EvCall _ q _ _ _ => [q] | _ => [] end) L.
Definition reply_varies (L : list event) : list (list bytes) :=
  flat_map (fun ev => match ev with
                      | EvCall _ _ _ _ (RResp r) => flat_map (fun kv => if beq vary_name (fst kv) then [snd kv] else []) (p_hdr r)
                      | _ => []
                      end) L.
Lemma Pl_call_requests L q : Pl L q -> In q (call_requests L).
Proof.
  intros (b & a & c & rep & H). unfold call_requests. apply in_flat_map. eexists. split; [exact H|]. left. reflexivity.
Qed.
Lemma VsL_reply_varies L v : VsL L v -> v = [] \/ In v (reply_varies L).
Proof.
  intros [H|(idx & q & a & b & r & H & Hv)]; [left; exact H|right].
  unfold reply_varies. apply in_flat_map. eexists. split; [exact H|]. cbv beta iota.
  apply in_flat_map. exists (vary_name, v). split; [exact Hv|]. cbv beta. cbn [fst snd]. rewrite (beq_refl vary_name). left. reflexivity.
Qed.

(* the history semantics, cut after n exchanges *)
Lemma run_history_firstn cfg n : forall h w, run_history cfg (firstn n h) w = firstn n (run_history cfg h w).
Proof.
  induction n as [|n IH]; intros h w; [reflexivity|]. destruct h as [|[gap q] h]; [reflexivity|].
  cbn [firstn run_history]. destruct (exchange cfg q _) as [obs w2]. cbn [firstn]. f_equal. apply IH.
Qed.
