(* DecisionProofs.v — the decision taken on a cache hit against the specification:
   reuse without contacting the origin only while fresh or with explicit leave (C01), never when
   validation is demanded (C02). *)
From HC Require Import Transport Spec.
From HC.Proofs Require Import FreshProofs.
From Coq Require Import ZifyBool.
Open Scope Z_scope.

Definition view_of (e : stored_entry) : stored_view :=
  {| sv_status := e_status e; sv_hdr := e_hdr e; sv_body := e_body e;
     sv_request_time := e_req_at e; sv_response_time := e_recv_at e |}.

Lemma sv_age_view e now : sv_age (view_of e) now = spec_current_age (e_hdr e) (e_req_at e) (e_recv_at e) now.
Proof. reflexivity. Qed.
Lemma sv_life_view e : sv_life (view_of e) = spec_lifetime (e_status e) (e_hdr e).
Proof. reflexivity. Qed.

(* facts about one evaluation of CalculateFreshness outside the request max-age=0 shortcut *)
Record fresh_facts (q : request) (e : stored_entry) (now : Z) (f : freshness) : Prop := {
  ff_age : f_age f = entry_age e now;
  ff_ts : f_age_ts f = now;
  ff_life_le : f_life f <= response_lifetime e (parse_cc (e_hdr e));
  ff_life_cap : forall m, req_max_age (parse_cc (q_hdr q)) = Some m -> f_life f <= m;
  ff_life_nonneg : 0 <= f_life f;
  ff_expired : f_expired f = (response_lifetime e (parse_cc (e_hdr e)) <=? entry_age e now);
  ff_exceeded : forall m, req_max_age (parse_cc (q_hdr q)) = Some m -> f_req_max_age_exceeded f = (m <=? entry_age e now);
  ff_fresh : f_stale f = false ->
             (entry_age e now < f_life f /\
              forall mf, req_min_fresh (parse_cc (q_hdr q)) = Some mf -> entry_age e now + mf <= f_life f)
             \/ (0 < max_stale_value (parse_cc (q_hdr q)) /\
                 entry_age e now < Z.max (dur_add (f_life f) (max_stale_value (parse_cc (q_hdr q))))
                                         (max_stale_value (parse_cc (q_hdr q))))
}.

Lemma entry_age_range e now : 0 <= entry_age e now <= max64.
Proof.
  unfold entry_age. pose proof (spec_age_le_impl (e_hdr e) (e_req_at e) (e_recv_at e) now). lia.
Qed.

Lemma response_lifetime_range e : valid_date (e_hdr e) -> e_status e <> 304 ->
  0 <= response_lifetime e (parse_cc (e_hdr e)) <= max64.
Proof. intros H1 H2. pose proof (response_lifetime_le e H1 H2). lia. Qed.

Lemma req_max_age_range d m : req_max_age d = Some m -> 0 <= m <= max64.
Proof.
  unfold req_max_age, duration_directive. destruct (alookup _ _); [|discriminate]. apply delta_range.
Qed.
Lemma req_min_fresh_range d m : req_min_fresh d = Some m -> 0 <= m <= max64.
Proof.
  unfold req_min_fresh, duration_directive. destruct (alookup _ _); [|discriminate]. apply delta_range.
Qed.

(* normal form of CalculateFreshness outside the shortcut *)
Definition capped_life (rcc : directives) (life1 : Z) : Z :=
  match req_max_age rcc with
  | Some m => if 0 <? m then Z.min life1 m else life1
  | None => life1
  end.
Definition min_fresh_stale (rcc : directives) (life age : Z) : bool :=
  match req_min_fresh rcc with
  | Some mf => (0 <? mf) && (wrap64 (life - age) <? mf)
  | None => false
  end.
Definition stale_after_max_stale (rcc : directives) (life age : Z) : bool :=
  let ms := max_stale_value rcc in
  let stale0 := life <=? age in
  if stale0 && (0 <? ms) && (age <? Z.max (dur_add life ms) ms) then false else stale0.

Lemma calc_fresh_normal e rcc cc now :
  req_max_age rcc <> Some 0 ->
  let age := entry_age e now in
  let life1 := response_lifetime e cc in
  let life := capped_life rcc life1 in
  calculate_freshness e rcc cc now =
  {| f_stale := if min_fresh_stale rcc life age then true else stale_after_max_stale rcc life age;
     f_age := age; f_age_ts := now; f_life := life;
     f_expired := life1 <=? age;
     f_req_max_age_exceeded := match req_max_age rcc with Some m => (0 <? m) && (m <=? age) | None => false end |}.
Proof.
  intros Hn0. cbv zeta. unfold calculate_freshness, capped_life, min_fresh_stale, stale_after_max_stale.
  destruct (req_max_age rcc) as [[|p|p]|]; [congruence| | |];
  match goal with |- context [if ?c then {| f_stale := true; f_age := _; f_age_ts := _; f_life := _; f_expired := _; f_req_max_age_exceeded := _ |} else _] =>
    destruct c end; reflexivity.
Qed.

Lemma calc_fresh_facts q e now :
  valid_date (e_hdr e) -> e_status e <> 304 ->
  req_max_age (parse_cc (q_hdr q)) <> Some 0 ->
  fresh_facts q e now (calculate_freshness e (parse_cc (q_hdr q)) (parse_cc (e_hdr e)) now).
Proof.
  intros Hd Hs Hn0.
  pose proof (entry_age_range e now) as Ha.
  pose proof (response_lifetime_range e Hd Hs) as Hl.
  rewrite (calc_fresh_normal e _ _ now Hn0). cbv zeta.
  set (rcc := parse_cc (q_hdr q)) in *. set (cc := parse_cc (e_hdr e)) in *.
  set (age := entry_age e now) in *. set (life1 := response_lifetime e cc) in *.
  assert (Hcap : (capped_life rcc life1 <= life1) /\ ((0 <= capped_life rcc life1) /\
                 (forall m, req_max_age rcc = Some m -> ((capped_life rcc life1 <= m) /\ (0 < m))))).
  { unfold capped_life. destruct (req_max_age rcc) as [m|] eqn:Em.
    - pose proof (req_max_age_range _ _ Em). assert (m <> 0) by congruence.
      assert (Hlt : (0 <? m) = true) by lia. rewrite Hlt.
      split; [lia|split; [lia|]]. intros m' E; inversion E; subst; lia.
    - split; [lia|split; [lia|]]. intros m' E; discriminate. }
  destruct Hcap as [Hc1 [Hc0 Hc2]].
  set (life := capped_life rcc life1) in *.
  constructor; cbn [f_age f_age_ts f_life f_expired f_req_max_age_exceeded f_stale]; fold rcc; fold cc.
  - reflexivity.
  - reflexivity.
  - exact Hc1.
  - intros m E; apply Hc2; exact E.
  - exact Hc0.
  - reflexivity.
  - intros m E. rewrite E. destruct (Hc2 m E) as [_ Hp]. assert (Hlt : (0 <? m) = true) by lia. rewrite Hlt. reflexivity.
  - intros Hst. destruct (min_fresh_stale rcc life age) eqn:Emf; [discriminate|].
    unfold stale_after_max_stale in Hst.
    destruct ((life <=? age) && (0 <? max_stale_value rcc) &&
              (age <? Z.max (dur_add life (max_stale_value rcc)) (max_stale_value rcc))) eqn:Er.
    + right. lia.
    + left. split; [lia|].
      intros mf E. unfold min_fresh_stale in Emf. rewrite E in Emf.
      pose proof (req_min_fresh_range _ _ E) as Hmf.
      assert (Hw : wrap64 (life - age) = life - age) by (apply wrap64_id; unfold min64, max64 in *; lia).
      rewrite Hw in Emf. lia.
Qed.

Lemma beq_nil a : beq a [] = true <-> a = [].
Proof. destruct a; cbn; split; intros; congruence. Qed.

Lemma time_sub_self t : time_sub t t = 0.
Proof. unfold time_sub, sat64, min64, max64. replace (t - t) with 0 by lia. reflexivity. Qed.

(* clamping to [0, max64] is sub-additive *)
Definition clamp (z : Z) : Z := Z.max 0 (Z.min max64 z).
Lemma clamp_subadd x y : clamp (x + y) <= clamp x + clamp y.
Proof. unfold clamp, max64; lia. Qed.
Lemma clamp_range z : 0 <= clamp z <= max64.
Proof. unfold clamp, max64; lia. Qed.

(* the age computed at [now], advanced by the time elapsed until [now'], is at least the specification's
   age at [now'] *)
Lemma age_later e now now' :
  sv_age (view_of e) now' <= go_sat_add (entry_age e now) (Z.max (time_sub now' now) 0).
Proof.
  rewrite sv_age_view. unfold entry_age, spec_current_age, current_age.
  pose proof (age_value_le (e_hdr e)) as Hav. cbv zeta in Hav.
  set (age_val := match hget (bs "Age") (e_hdr e) with [] => 0 | s0 => atoi_drop_err s0 end) in *.
  set (impl_av := if age_val <=? max_delta_seconds then Z.max age_val 0 * second else max64) in *.
  destruct Hav as [[Hs0 Hs1] Hs2].
  rewrite !time_sub_pos.
  fold (clamp (e_recv_at e - e_req_at e)) (clamp (now - e_recv_at e)) (clamp (now' - e_recv_at e))
       (clamp (now' - now)) (clamp (e_recv_at e - date_header (e_hdr e))).
  set (app_s := match spec_time (hget (bs "Date") (e_hdr e)) with
                | Some d => Z.max 0 (Z.min max64 (e_recv_at e - d)) | None => 0 end).
  assert (Has : 0 <= app_s <= clamp (e_recv_at e - date_header (e_hdr e))).
  { unfold app_s, clamp, date_header, spec_time. destruct (raw_time _); unfold max64; lia. }
  pose proof (clamp_range (e_recv_at e - e_req_at e)) as Hdl.
  pose proof (clamp_range (now - e_recv_at e)) as Hr1.
  pose proof (clamp_range (now' - e_recv_at e)) as Hr2.
  pose proof (clamp_range (now' - now)) as Hdt.
  pose proof (clamp_range (e_recv_at e - date_header (e_hdr e))) as Hai.
  pose proof (clamp_subadd (now - e_recv_at e) (now' - now)) as Hsub.
  replace (now - e_recv_at e + (now' - now)) with (now' - e_recv_at e) in Hsub by lia.
  generalize dependent (clamp (e_recv_at e - e_req_at e)); intros delay Hdl.
  generalize dependent (clamp (now - e_recv_at e)); intros r1 Hr1.
  generalize dependent (clamp (now' - e_recv_at e)); intros r2 Hr2.
  generalize dependent (clamp (now' - now)); intros dt Hdt.
  generalize dependent (clamp (e_recv_at e - date_header (e_hdr e))); intros app_i Hai.
  generalize dependent (spec_age_value (e_hdr e)); intros sav.
  clearbody app_s impl_av. clear age_val.
  intros.
  rewrite (go_sat_add_spec impl_av delay) by lia.
  assert (Hc1 : 0 <= sat_add impl_av delay <= max64) by (apply sat_add_range; lia).
  rewrite (go_sat_add_spec (Z.max app_i (sat_add impl_av delay)) r1) by lia.
  assert (Hc2 : 0 <= sat_add (Z.max app_i (sat_add impl_av delay)) r1 <= max64) by (apply sat_add_range; lia).
  rewrite go_sat_add_spec by lia.
  unfold sat_add in *. unfold max64 in *. lia.
Qed.

Section Decision.
  Variables (q : request) (e : stored_entry) (now : Z).
  Hypothesis Hd : valid_date (e_hdr e).
  Hypothesis Hs : e_status e <> 304.

  Let rcc := parse_cc (q_hdr q).
  Let cc := parse_cc (e_hdr e).
  Let f := calculate_freshness e rcc cc now.
  Let s := view_of e.

  Lemma ages : 0 <= sv_age s now <= entry_age e now /\ entry_age e now <= max64.
  Proof. unfold s. rewrite sv_age_view. unfold entry_age. apply spec_age_le_impl. Qed.

  Lemma lives : 0 <= response_lifetime e cc <= sv_life s /\ sv_life s <= max64.
  Proof. unfold s, cc. rewrite sv_life_view. apply response_lifetime_le; assumption. Qed.

  (* in the request max-age=0 shortcut, validation is always mandatory *)
  Lemma shortcut_must_validate :
    req_max_age rcc = Some 0 -> hit_must_validate q e f = true.
  Proof.
    intros E. unfold hit_must_validate, f, calculate_freshness. fold rcc. rewrite E. cbn.
    rewrite !Bool.orb_true_r. reflexivity.
  Qed.

  (* whenever the specification demands validation, the implementation's must-validate test fires *)
  Lemma no_must_validate_spec :
    hit_must_validate q e f = false -> needs_validation s q now = false.
  Proof.
    intros Hmv.
    assert (Hn0 : req_max_age rcc <> Some 0).
    { intros E. rewrite (shortcut_must_validate E) in Hmv. discriminate. }
    pose proof (calc_fresh_facts q e now Hd Hs Hn0) as FF. fold rcc cc f in FF.
    pose proof ages as [[Ha0 Ha1] Ha2]. pose proof lives as [[Hl0 Hl1] Hl2].
    unfold hit_must_validate in Hmv. fold rcc cc in Hmv.
    apply Bool.orb_false_iff in Hmv as [Hmv Hex].
    apply Bool.orb_false_iff in Hmv as [Hmv Hnc].
    apply Bool.orb_false_iff in Hmv as [Hunq Hmr].
    unfold needs_validation, needs_validation_with. unfold spec_cc. fold rcc. replace (parse_cc (sv_hdr s)) with cc by reflexivity.
    apply Bool.orb_false_iff; split; [apply Bool.orb_false_iff; split; [apply Bool.orb_false_iff; split|]|].
    - (* unqualified no-cache *)
      unfold sv_no_cache_unqualified, sd_arg. unfold hit_qualified, resp_no_cache in Hunq. fold cc in Hunq.
      destruct (alookup (bs "no-cache") cc) as [v|]; cbn [option_map]; [|reflexivity].
      unfold no_cache_fields in Hunq.
      destruct (parse_quoted_string v); [discriminate|reflexivity].
    - (* stale and must-revalidate *)
      unfold sd_has. change (amem (bs "must-revalidate") cc) with (resp_must_revalidate cc).
      destruct (resp_must_revalidate cc); [|apply Bool.andb_false_r].
      rewrite Bool.andb_true_r in Hmr |- *.
      apply Bool.orb_false_iff in Hmr as [_ Hexp].
      rewrite (ff_expired _ _ _ _ FF) in Hexp. fold cc in Hexp. lia.
    - exact Hnc.
    - rewrite <- duration_directive_spec. change (duration_directive rcc (bs "max-age")) with (req_max_age rcc).
      destruct (req_max_age rcc) as [m|] eqn:Em; [|reflexivity].
      rewrite (ff_exceeded _ _ _ _ FF m Em) in Hex. lia.
  Qed.

  (* C02: what is served without validation does not need validation *)
  Theorem decision_needs_no_validation :
    decide_hit q e now = DServe \/ decide_hit q e now = DServeSWR ->
    needs_validation s q now = false.
  Proof.
    intros Hdec. apply no_must_validate_spec.
    unfold decide_hit in Hdec. fold rcc cc f in Hdec.
    destruct (hit_must_validate q e f); [|reflexivity].
    destruct (req_only_if_cached rcc); destruct Hdec; discriminate.
  Qed.

  (* C13: when the stored response is returned because validation failed, a stale-if-error window of
     the stored response or of the request covers its staleness at that moment *)
  Theorem sie_within_window now' :
    req_max_age rcc <> Some 0 ->
    can_stale_on_error f [resp_stale_if_error cc; req_stale_if_error rcc] now' = true ->
    exists n, (sd_duration (bs "stale-if-error") cc = Some n \/ sd_duration (bs "stale-if-error") rcc = Some n)
              /\ within_window (sv_age s now') (sv_life s) n = true.
  Proof.
    intros Hn0 Hc.
    pose proof (calc_fresh_facts q e now Hd Hs Hn0) as FF. fold rcc cc f in FF.
    pose proof lives as [[Hl0 Hl1] Hl2].
    pose proof (ff_age _ _ _ _ FF) as Hfa. pose proof (ff_ts _ _ _ _ FF) as Hft.
    pose proof (ff_life_le _ _ _ _ FF) as Hfl. fold cc in Hfl. pose proof (ff_life_nonneg _ _ _ _ FF) as Hfl0.
    (* the age the policy uses is at least the specification's age at that instant *)
    assert (Hage : sv_age s now' <= go_sat_add (f_age f) (Z.max (time_sub now' (f_age_ts f)) 0)).
    { rewrite Hfa, Hft. apply age_later. }
    unfold can_stale_on_error in Hc. cbn [existsb] in Hc. rewrite Bool.orb_false_r in Hc.
    assert (Hone : forall d n, d = Some n -> 0 <= n <= max64 ->
                   go_sat_add (f_age f) (Z.max (time_sub now' (f_age_ts f)) 0) <? go_sat_add (f_life f) n = true ->
                   within_window (sv_age s now') (sv_life s) n = true).
    { intros d n _ Hn Hlt. rewrite (go_sat_add_spec (f_life f) n) in Hlt by (unfold max64 in *; lia).
      unfold within_window, sat_add, max64 in *. lia. }
    apply Bool.orb_true_iff in Hc as [Hc|Hc].
    - destruct (resp_stale_if_error cc) as [n|] eqn:E; [|discriminate].
      exists n. split; [left; rewrite <- duration_directive_spec; exact E|].
      apply (Hone _ n E); [|exact Hc].
      unfold resp_stale_if_error, duration_directive in E. destruct (alookup _ cc); [|discriminate]. apply (delta_range _ _ E).
    - destruct (req_stale_if_error rcc) as [n|] eqn:E; [|discriminate].
      exists n. split; [right; rewrite <- duration_directive_spec; exact E|].
      apply (Hone _ n E); [|exact Hc].
      unfold req_stale_if_error, duration_directive in E. destruct (alookup _ rcc); [|discriminate]. apply (delta_range _ _ E).
  Qed.

  (* C01: reuse without contacting the origin only while fresh, or with explicit leave *)
  Theorem decision_fresh_or_allowed :
    decide_hit q e now = DServe \/ decide_hit q e now = DServeSWR ->
    fresh_enough s q now || staleness_allowed s q now = true.
  Proof.
    intros Hdec.
    assert (Hmv : hit_must_validate q e f = false).
    { unfold decide_hit in Hdec. fold rcc cc f in Hdec.
      destruct (hit_must_validate q e f); [|reflexivity].
      destruct (req_only_if_cached rcc); destruct Hdec; discriminate. }
    assert (Hn0 : req_max_age rcc <> Some 0).
    { intros E. rewrite (shortcut_must_validate E) in Hmv. discriminate. }
    pose proof (calc_fresh_facts q e now Hd Hs Hn0) as FF. fold rcc cc f in FF.
    pose proof ages as [[Ha0 Ha1] Ha2]. pose proof lives as [[Hl0 Hl1] Hl2].
    unfold decide_hit in Hdec. fold rcc cc f in Hdec. rewrite Hmv in Hdec.
    destruct (req_only_if_cached rcc) eqn:Eoic.
    { (* only-if-cached: staleness explicitly allowed *)
      apply Bool.orb_true_iff; right. unfold staleness_allowed, spec_cc, sd_has. fold rcc.
      change (amem (bs "only-if-cached") rcc) with (req_only_if_cached rcc). rewrite Eoic. reflexivity. }
    rewrite Bool.orb_false_r in Hdec.
    destruct (f_stale f) eqn:Est; cbn [negb] in Hdec.
    - (* stale: only the stale-while-revalidate window remains *)
      destruct (resp_swr cc) as [w|] eqn:Esw; [|destruct Hdec; discriminate].
      match type of Hdec with context [if ?c then _ else _] => destruct c eqn:Ew end;
        [|destruct Hdec; discriminate].
      rewrite (ff_ts _ _ _ _ FF), time_sub_self in Ew.
      pose proof (ff_age _ _ _ _ FF) as Hfa. pose proof (ff_life_le _ _ _ _ FF) as Hfl.
      pose proof (ff_life_nonneg _ _ _ _ FF) as Hfl0. fold cc in Hfl.
      assert (Hda : dur_add (f_age f) 0 = f_age f).
      { unfold dur_add. rewrite Z.add_0_r. apply wrap64_id. rewrite Hfa. unfold min64, max64 in *; lia. }
      rewrite Hda in Ew.
      assert (Hw : wrap64 (f_age f - f_life f) = f_age f - f_life f).
      { apply wrap64_id. rewrite Hfa. unfold min64, max64 in *; lia. }
      rewrite Hw, Hfa in Ew.
      apply Bool.orb_true_iff; right. unfold staleness_allowed, spec_cc. fold rcc.
      replace (parse_cc (sv_hdr s)) with cc by reflexivity.
      rewrite <- duration_directive_spec.
      change (duration_directive cc (bs "stale-while-revalidate")) with (resp_swr cc). rewrite Esw.
      assert (Hwr : 0 <= w <= max64).
      { unfold resp_swr, duration_directive in Esw. destruct (alookup _ cc); [|discriminate]. apply (delta_range _ _ Esw). }
      assert (within_window (sv_age s now) (sv_life s) w = true).
      { unfold within_window, sat_add, max64 in *. lia. }
      rewrite H. rewrite !Bool.orb_true_r. reflexivity.
    - (* not stale for the implementation *)
      destruct (ff_fresh _ _ _ _ FF Est) as [[Hlt Hmf]|[Hms Hlt]].
      + apply Bool.orb_true_iff; left. unfold fresh_enough, spec_cc. fold rcc.
        rewrite <- !duration_directive_spec.
        change (duration_directive rcc (bs "max-age")) with (req_max_age rcc).
        change (duration_directive rcc (bs "min-fresh")) with (req_min_fresh rcc).
        pose proof (ff_life_le _ _ _ _ FF) as Hfl. fold cc in Hfl.
        pose proof (ff_life_cap _ _ _ _ FF) as Hcap.
        set (life := match req_max_age rcc with Some m => Z.min (sv_life s) m | None => sv_life s end).
        assert (Hlife : f_life f <= life).
        { unfold life. destruct (req_max_age rcc) as [m|] eqn:Em; [specialize (Hcap m Em)|]; lia. }
        destruct (req_min_fresh rcc) as [mf|] eqn:Emf.
        * specialize (Hmf mf Emf). pose proof (req_min_fresh_range _ _ Emf).
          unfold sat_add, max64 in *. lia.
        * unfold sat_add, max64 in *. lia.
      + apply Bool.orb_true_iff; right. unfold staleness_allowed, spec_cc. fold rcc.
        replace (parse_cc (sv_hdr s)) with cc by reflexivity.
        unfold max_stale_value in Hms, Hlt. fold rcc in Hms, Hlt.
        change (sd_arg (bs "max-stale") rcc) with (req_max_stale_raw rcc).
        destruct (req_max_stale_raw rcc) as [[|c a]|] eqn:Ems; [rewrite Bool.orb_true_r; reflexivity| |lia].
        rewrite delta_spec in Hms, Hlt.
        destruct (spec_delta (c :: a)) as [m|] eqn:Esd; cbn [option_map] in Hms, Hlt; [|lia].
        pose proof (ff_life_le _ _ _ _ FF) as Hfl. fold cc in Hfl.
        pose proof (ff_life_nonneg _ _ _ _ FF) as Hfl0.
        assert (Hm : 0 <= sat_ns m <= max64).
        { assert (Hx : delta_seconds (c :: a) = Some (sat_ns m)) by (rewrite delta_spec, Esd; reflexivity).
          apply (delta_range _ _ Hx). }
        assert (Hge : (0 <=? sat_ns m) = true) by lia. rewrite Hge in Hms, Hlt.
        assert (within_window (sv_age s now) (sv_life s) (sat_ns m) = true).
        { unfold within_window, sat_add. unfold dur_add in Hlt.
          destruct (Z.le_gt_cases (f_life f + sat_ns m) max64) as [Hno|Hov].
          - rewrite wrap64_id in Hlt by (unfold min64, max64 in *; lia). unfold max64 in *. lia.
          - unfold max64 in *. lia. }
        rewrite H. rewrite Bool.orb_true_r. reflexivity.
  Qed.
End Decision.
