(* SwrProofs.v — the supervisor / worker pair of backgroundRevalidate never deadlocks and ends within
   five steps when errc has room for the worker's one value; with an unbuffered errc the worker can be
   left blocked for ever (C20). *)
From HC Require Import Swr.
Open Scope Z_scope.

Definition g_inv (s : gstate) : Prop :=
  (g_sup s = SDone -> g_ctx_done s = true) /\
  (g_wrk s = WCall \/ g_wrk s = WSend -> g_len s = O /\ g_closed s = false) /\
  g_calls s = 1%nat.

Lemma g_inv_init : g_inv g_init.
Proof. repeat split; cbn; try congruence; auto. Qed.

Lemma g_inv_step cap answers s s' : g_inv s -> gstep cap answers s s' -> g_inv s'.
Proof.
  intros (I1 & I2 & I3) H.
  inversion H as [s0 Hc|s0 Hw Ha|s0 Hw Hc|s0 Hw Hl|s0 Hw Hcap Hs|s0 Hw|s0 Hs Hc|s0 n Hs Hl|s0 Hs Hc Hl]; subst s0 s';
    unfold g_inv; cbn [g_sup g_wrk g_len g_closed g_ctx_done g_calls].
  - split; [intros _; reflexivity|]. split; [exact I2|exact I3].
  - split; [exact I1|]. split; [intros _; apply I2; left; exact Hw|exact I3].
  - split; [exact I1|]. split; [intros _; apply I2; left; exact Hw|exact I3].
  - split; [exact I1|]. split; [intros [E|E]; discriminate|exact I3].
  - split; [intros _; reflexivity|]. split; [intros [E|E]; discriminate|exact I3].
  - split; [exact I1|]. split; [intros [E|E]; discriminate|exact I3].
  - split; [intros _; reflexivity|]. split; [exact I2|exact I3].
  - split; [intros _; reflexivity|]. split; [|exact I3].
    intros E. destruct (I2 E) as [Hz _]. rewrite Hz in Hl. discriminate.
  - split; [intros _; reflexivity|]. split; [|exact I3].
    intros E. destruct (I2 E) as [_ Hf]. rewrite Hf in Hc. discriminate.
Qed.

Lemma g_inv_reach cap answers s : greach cap answers s -> g_inv s.
Proof. induction 1 as [|s s' _ IH Hs]; [apply g_inv_init|exact (g_inv_step _ _ _ _ IH Hs)]. Qed.

(* a state without successor is final: nobody is left blocked *)
Theorem no_deadlock cap answers s : (1 <= cap)%nat -> greach cap answers s ->
  g_final s \/ exists s', gstep cap answers s s'.
Proof.
  intros Hcap Hr. destruct (g_inv_reach _ _ _ Hr) as (I1 & I2 & I3).
  destruct (g_sup s) eqn:Es.
  - (* the supervisor waits: its context is done, or can become done *)
    right. destruct (g_ctx_done s) eqn:Ec.
    + eexists. apply G_sup_ctx; assumption.
    + eexists. apply G_ctx; assumption.
  - specialize (I1 eq_refl). destruct (g_wrk s) eqn:Ew.
    + right. eexists. apply G_abort; assumption.
    + right. destruct I2 as [Hl _]; [auto|]. eexists. apply G_send_buffered; [assumption|]. rewrite Hl. exact Hcap.
    + right. eexists. apply G_close; assumption.
    + left. split; assumption.
Qed.

Lemma measure_decreases cap answers s s' : gstep cap answers s s' -> (g_measure s' < g_measure s)%nat.
Proof.
  intros H. inversion H; subst; unfold g_measure; cbn;
    repeat match goal with Hx : _ = _ |- _ => rewrite Hx end; cbn;
    try destruct (g_ctx_done s); try destruct (g_wrk s); try destruct (g_sup s); cbn; lia.
Qed.

Inductive gsteps (cap : nat) (answers : bool) : nat -> gstate -> gstate -> Prop :=
| GS_0 s : gsteps cap answers O s s
| GS_S n s s' s'' : gstep cap answers s s' -> gsteps cap answers n s' s'' -> gsteps cap answers (S n) s s''.

Lemma gsteps_bound cap answers n s s' : gsteps cap answers n s s' -> (n + g_measure s' <= g_measure s)%nat.
Proof.
  induction 1 as [|n s s' s'' Hs _ IH]; [lia|]. pose proof (measure_decreases _ _ _ _ Hs). lia.
Qed.

(* every execution from the start has at most five steps *)
Theorem executions_are_short cap answers n s : gsteps cap answers n g_init s -> (n <= 5)%nat.
Proof. intros H. apply gsteps_bound in H. unfold g_measure in H at 2. cbn in H. lia. Qed.

Lemma gsteps_reach cap answers n s s' : greach cap answers s -> gsteps cap answers n s s' -> greach cap answers s'.
Proof. intros Hr H. induction H as [|n s s' s'' Hs _ IH]; [exact Hr|]. apply IH. econstructor; eassumption. Qed.

Theorem one_origin_call cap answers s : greach cap answers s -> g_calls s = 1%nat.
Proof. intros H. apply g_inv_reach in H. apply H. Qed.

(* with an unbuffered channel: timeout, the supervisor leaves, the call is aborted, the worker blocks on its send for ever *)
Definition stuck_state : gstate :=
  {| g_sup := SDone; g_wrk := WSend; g_len := 0; g_closed := false; g_ctx_done := true; g_calls := 1 |}.
Theorem unbuffered_can_leak answers :
  greach 0 answers stuck_state /\ ~ g_final stuck_state /\ forall s', ~ gstep 0 answers stuck_state s'.
Proof.
  split; [|split].
  - eapply GR_step; [eapply GR_step; [eapply GR_step; [apply GR_init|]|]|].
    + apply G_ctx. reflexivity.
    + apply G_sup_ctx; reflexivity.
    + apply (G_abort 0 answers {| g_sup := SDone; g_wrk := WCall; g_len := 0; g_closed := false; g_ctx_done := true; g_calls := 1 |}); reflexivity.
  - intros [_ H]. discriminate.
  - intros s' H. inversion H; subst; cbn in *; try discriminate; try lia.
Qed.

(* ---------- timing ---------- *)
Lemma xp_timeout_pos x : 0 < xp_timeout x.
Proof.
  unfold xp_timeout, effective_swr_timeout, default_swr_timeout, second.
  destruct (xp_setting x) as [t|]; cbn zeta.
  - destruct (Z.eqb_spec (Z.max t 0) 0); lia.
  - cbn. lia.
Qed.

Lemma bg_deadline_bounds x : 0 <= xp_bg_deadline x <= xp_timeout x.
Proof.
  pose proof (xp_timeout_pos x) as HT. unfold xp_bg_deadline. destruct (xp_deadline x) as [dl|]; lia.
Qed.

Lemma request_end_bounds x :
  0 <= xp_cut x <= xp_timeout x /\
  (match xp_latency x with Some d => 0 <= d | None => True end -> 0 <= xp_request_end x <= xp_timeout x).
Proof.
  pose proof (xp_timeout_pos x) as HT. unfold xp_request_end, xp_cut, xp_bg_deadline.
  destruct (xp_cancel x) as [c|]; destruct (xp_deadline x) as [dl|]; destruct (xp_latency x) as [d|]; lia.
Qed.
