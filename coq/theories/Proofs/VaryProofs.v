(* VaryProofs.v — variant identifiers and matching (C04). *)
From HC Require Import Transport SpecMon.
From HC.Proofs Require Import HeaderProofs.
Open Scope Z_scope.

Definition nul_free (s : bytes) : Prop := ~ In 0 s.

(* NUL-delimited concatenation can be split in only one way *)
Lemma delim_split a : forall a' x x',
  nul_free a -> nul_free a' -> a ++ 0 :: x = a' ++ 0 :: x' -> a = a' /\ x = x'.
Proof.
  induction a as [|c a IH]; intros [|c' a'] x x' Ha Ha' H; cbn in H.
  - inversion H; auto.
  - inversion H; subst. exfalso. apply Ha'. left; reflexivity.
  - inversion H; subst. exfalso. apply Ha. left; reflexivity.
  - inversion H; subst. destruct (IH a' x x') as [E1 E2]; auto.
    + intros Hin; apply Ha; right; exact Hin.
    + intros Hin; apply Ha'; right; exact Hin.
    + subst; auto.
Qed.

Definition encode_pairs (l : list (bytes * bytes)) : bytes :=
  flat_map (fun kv => fst kv ++ [0] ++ snd kv ++ [0]) l.

Definition pairs_nul_free (l : list (bytes * bytes)) : Prop :=
  forall k v, In (k, v) l -> nul_free k /\ nul_free v.

(* the byte string that is hashed determines the (sorted) variant map *)
Theorem encode_pairs_inj l1 : forall l2,
  pairs_nul_free l1 -> pairs_nul_free l2 -> encode_pairs l1 = encode_pairs l2 -> l1 = l2.
Proof.
  induction l1 as [|[k v] l1 IH]; intros [|[k' v'] l2] H1 H2 E; cbn in E.
  - reflexivity.
  - destruct k'; cbn in E; discriminate.
  - destruct k; cbn in E; discriminate.
  - destruct (H1 k v (or_introl eq_refl)) as [Hk Hv]. destruct (H2 k' v' (or_introl eq_refl)) as [Hk' Hv'].
    rewrite <- !app_assoc in E. cbn [app] in E.
    destruct (delim_split k k' _ _ Hk Hk' E) as [Ek E']. subst k'.
    rewrite <- !app_assoc in E'. cbn [app] in E'.
    destruct (delim_split v v' _ _ Hv Hv' E') as [Ev E'']. subst v'.
    f_equal. apply IH; auto.
    + intros a b Hin; apply H1; right; exact Hin.
    + intros a b Hin; apply H2; right; exact Hin.
Qed.

Lemma vary_encoding_is_encode m : vary_encoding m = encode_pairs (sort_resolved m).
Proof. reflexivity. Qed.

(* ---------- matching ---------- *)
Definition norm_first (n : bytes) (h : headers) : option bytes :=
  match first_line n h with Some x => normalize_header_value n x | None => Some [] end.

(* every binding of the resolved map is the normalised first line of its field in the storing request *)
Lemma resolve_names_bindings names h : forall acc res,
  resolve_names names h acc = Some res ->
  (forall n v, alookup n acc = Some v -> norm_first n h = Some v) ->
  (forall n v, alookup n res = Some v -> norm_first n h = Some v) /\
  (forall n, In n names -> amem n res = true) /\
  (forall n, amem n acc = true -> amem n res = true).
Proof.
  induction names as [|n0 names IH]; intros acc res H Hacc; cbn in H.
  - inversion H; subst. split; [exact Hacc|]. split; [intros n []|auto].
  - fold (norm_first n0 h) in H. destruct (norm_first n0 h) as [x|] eqn:En; [|discriminate].
    destruct (IH (aset n0 x acc) res H) as (Hb & Hn & Hm).
    + intros n v Hl. destruct (beq n n0) eqn:E.
      * apply beq_eq in E; subst. rewrite alookup_aset_same in Hl. inversion Hl; subst. exact En.
      * rewrite alookup_aset_other in Hl by exact E. apply Hacc; exact Hl.
    + split; [exact Hb|]. split.
      * intros n [Hin|Hin]; [subst; apply Hm; unfold amem; rewrite alookup_aset_same; reflexivity|apply Hn; exact Hin].
      * intros n Ha. apply Hm. unfold amem in *. destruct (beq n n0) eqn:E.
        -- apply beq_eq in E; subst. rewrite alookup_aset_same. reflexivity.
        -- rewrite alookup_aset_other by exact E. exact Ha.
Qed.

(* association lists produced by aset have no duplicate keys, so In and alookup agree *)
Inductive nodup_keys {V} : list (bytes * V) -> Prop :=
| NK_nil : nodup_keys []
| NK_cons k v l : alookup k l = None -> nodup_keys l -> nodup_keys ((k, v) :: l).

Lemma aset_nodup {V} k (v : V) l : nodup_keys l -> nodup_keys (aset k v l).
Proof.
  induction 1 as [|k' v' l Hn Hl IH]; cbn; [constructor; [reflexivity|constructor]|].
  destruct (beq k k') eqn:E.
  - apply beq_eq in E; subst. constructor; assumption.
  - constructor; [|exact IH]. rewrite alookup_aset_other; [exact Hn|]. rewrite beq_sym. exact E.
Qed.

Lemma resolve_names_nodup names h : forall acc res,
  resolve_names names h acc = Some res -> nodup_keys acc -> nodup_keys res.
Proof.
  induction names as [|n0 names IH]; intros acc res H Hacc; cbn in H; [inversion H; subst; exact Hacc|].
  destruct (match first_line n0 h with Some x => normalize_header_value n0 x | None => Some [] end); [|discriminate].
  apply (IH _ _ H). apply aset_nodup; exact Hacc.
Qed.

Lemma nodup_in_lookup {V} (l : list (bytes * V)) k v : nodup_keys l -> In (k, v) l -> alookup k l = Some v.
Proof.
  induction 1 as [|k' v' l Hn Hl IH]; intros Hin; [destruct Hin|].
  destruct Hin as [E|Hin]; cbn.
  - inversion E; subst. rewrite beq_refl. reflexivity.
  - destruct (beq k k') eqn:E; [|apply IH; exact Hin].
    apply beq_eq in E; subst. rewrite (IH Hin) in Hn. discriminate.
Qed.

(* if the matcher accepts, every binding equals the request's normalised value *)
Lemma resolved_match_true m h :
  resolved_match m h = Some true -> forall n v, In (n, v) m -> norm_first n h = Some v.
Proof.
  induction m as [|[f v] m IH]; intros H n v' Hin; [destruct Hin|]. cbn in H.
  fold (norm_first f h) in H. destruct (norm_first f h) as [x|] eqn:E; [|discriminate].
  destruct (beq x v) eqn:Eb; [|discriminate]. apply beq_eq in Eb; subst x.
  destruct Hin as [Hin|Hin]; [inversion Hin; subst; exact E|apply IH; assumption].
Qed.

Lemma alookup_in {V} (l : list (bytes * V)) k v : alookup k l = Some v -> exists k', In (k', v) l /\ k' = k.
Proof.
  induction l as [|[k' v'] l IH]; cbn; [discriminate|].
  destruct (beq k k') eqn:E; intros H.
  - inversion H; subst. apply beq_eq in E; subst. exists k'; split; [left; reflexivity|reflexivity].
  - destruct (IH H) as (k'' & Hin & Hk). exists k''; split; [right; exact Hin|exact Hk].
Qed.

(* C04: a reference created for request q0 under Vary field list [names] matches request q only if the
   two requests agree, after normalisation, on every nominated field, and no member is "*" *)
Theorem ref_match_sound names h0 h r :
  resolve_names names h0 [] = Some (r_resolved r) ->
  ref_matches r h = Some true ->
  ~ In (bs "*") names /\
  forall n, In n names -> exists v, norm_first n h0 = Some v /\ norm_first n h = Some v.
Proof.
  intros Hres Hm. unfold ref_matches in Hm.
  destruct (amem (bs "*") (r_resolved r) || beq (go_trim (r_vary r)) (bs "*")) eqn:Es; [discriminate|].
  apply Bool.orb_false_iff in Es as [Es _].
  destruct (resolve_names_bindings names h0 [] (r_resolved r) Hres) as (Hb & Hn & _); [intros n v H; discriminate|].
  split.
  - intros Hin. rewrite (Hn _ Hin) in Es. discriminate.
  - intros n Hin. pose proof (Hn n Hin) as Ha. unfold amem in Ha.
    destruct (alookup n (r_resolved r)) as [v|] eqn:El; [|discriminate].
    exists v. split; [apply Hb; exact El|].
    destruct (alookup_in _ _ _ El) as (k' & Hin' & Hk). subst k'.
    apply (resolved_match_true _ _ Hm n v Hin').
Qed.

(* ---------- decimal rendering is injective ---------- *)
Lemma digits_val_app s : forall a t, digits_val a (s ++ t) = digits_val (digits_val a s) t.
Proof. induction s as [|c s IH]; intros a t; cbn; auto. Qed.

Lemma digits_val_shift s : forall a, digits_val a s = a * 10 ^ Z.of_nat (List.length s) + digits_val 0 s.
Proof.
  induction s as [|c s IH]; intros a; cbn [digits_val List.length].
  - cbn. lia.
  - rewrite (IH (a * 10 + (c - 48))), (IH (0 * 10 + (c - 48))).
    rewrite Nat2Z.inj_succ, Z.pow_succ_r by lia. lia.
Qed.

Lemma dec_digits_val fuel : forall n acc, 0 <= n < 10 ^ Z.of_nat fuel ->
  digits_val 0 (dec_digits fuel n acc) = n * 10 ^ Z.of_nat (List.length acc) + digits_val 0 acc.
Proof.
  induction fuel as [|fuel IH]; intros n acc Hn.
  - cbn in Hn. assert (n = 0) by lia. subst. cbn. lia.
  - cbn [dec_digits].
    assert (Hd : digits_val 0 ((48 + n mod 10) :: acc) = (n mod 10) * 10 ^ Z.of_nat (List.length acc) + digits_val 0 acc).
    { cbn [digits_val]. rewrite digits_val_shift. lia. }
    destruct (Z.ltb_spec n 10).
    + rewrite Hd. rewrite Z.mod_small by lia. reflexivity.
    + rewrite IH.
      * cbn [List.length]. rewrite Hd. rewrite Nat2Z.inj_succ, Z.pow_succ_r by lia.
        pose proof (Z.div_mod n 10 ltac:(lia)). nia.
      * rewrite Nat2Z.inj_succ, Z.pow_succ_r in Hn by lia. split; [apply Z.div_pos; lia|].
        apply Z.div_lt_upper_bound; lia.
Qed.

Lemma dec_of_nonneg_val n : 0 <= n < 10 ^ 80 -> digits_val 0 (dec_of_nonneg n) = n.
Proof.
  intros H. unfold dec_of_nonneg. rewrite dec_digits_val by exact H. cbn. lia.
Qed.

Lemma dec_of_nonneg_inj a b : 0 <= a < 10 ^ 80 -> 0 <= b < 10 ^ 80 -> dec_of_nonneg a = dec_of_nonneg b -> a = b.
Proof. intros Ha Hb E. rewrite <- (dec_of_nonneg_val a Ha), <- (dec_of_nonneg_val b Hb), E. reflexivity. Qed.

Lemma fnv_range s : 0 <= fnv64a s < two64.
Proof.
  unfold fnv64a. assert (H : forall l h, 0 <= h < two64 -> 0 <= fold_left fnv_step l h < two64).
  { induction l as [|c l IH]; intros h Hh; cbn; [exact Hh|]. apply IH. unfold fnv_step. apply Z.mod_pos_bound. reflexivity. }
  apply H. unfold fnv_offset, two64; lia.
Qed.

Lemma app_inv_head_bytes (u a b : bytes) : u ++ a = u ++ b -> a = b.
Proof. apply app_inv_head. Qed.
