(* Wire.v — the stored form of an entry (internal/entry.go: MarshalBinary / ParseResponse) at the level of
   bytes: a metadata line, then an HTTP/1.x response message as httputil.DumpResponse writes it and
   http.ReadResponse reads it back: status line, field lines, empty line, body framed by Content-Length,
   by chunked transfer coding, or by the end of the data (C05).
   The reader is modelled concretely; the writer is any byte string of that grammar (render_msg), which is
   what DumpResponse produces — the check parses the bytes the real transport stored with this reader and
   compares with Go's own reading. *)
From HC Require Export Header.
Open Scope Z_scope.

Definition crlf : bytes := [13; 10].

(* bufio ReadLine as textproto uses it: up to LF, the line without LF *)
Fixpoint read_line (s : bytes) : option (bytes * bytes) :=
  match s with
  | [] => None
  | c :: r =>
      if c =? 10 then Some ([], r)
      else match read_line r with
           | Some (l, rest) => Some (c :: l, rest)
           | None => None
           end
  end.
Definition strip_cr (l : bytes) : bytes :=
  match rev l with
  | c :: t => if c =? 13 then rev t else l
  | [] => l
  end.

(* lines up to (not including) the first empty line *)
Fixpoint read_lines (fuel : nat) (s : bytes) (acc : list bytes) : option (list bytes * bytes) :=
  match fuel with
  | O => None
  | S f =>
      match read_line s with
      | None => None
      | Some (l0, rest) =>
          match strip_cr l0 with
          | [] => Some (rev acc, rest)
          | l => read_lines f rest (l :: acc)
          end
      end
  end.

(* the value of the first field line named [name] (case-insensitive), trimmed *)
Definition line_name (l : bytes) : bytes := match cut 58 l with Some (k, _) => lower (tp_trim k) | None => [] end.
Definition line_value (l : bytes) : bytes := match cut 58 l with Some (_, v) => tp_trim v | None => [] end.
Fixpoint field_value (name : bytes) (lines : list bytes) : option bytes :=
  match lines with
  | [] => None
  | l :: r => if beq (line_name l) name then Some (line_value l) else field_value name r
  end.

(* numbers *)
Definition hex_val_of (c : Z) : option Z :=
  if is_digit c then Some (c - 48)
  else if (97 <=? c) && (c <=? 102) then Some (c - 87)
  else if (65 <=? c) && (c <=? 70) then Some (c - 55) else None.
Fixpoint parse_hex (acc : Z) (s : bytes) : option Z :=
  match s with
  | [] => Some acc
  | c :: r => match hex_val_of c with Some v => parse_hex (acc * 16 + v) r | None => None end
  end.
Definition parse_dec (s : bytes) : option Z :=
  match s with [] => None | _ => if all_digits s then Some (digits_val 0 s) else None end.

Definition take_n (n : Z) (s : bytes) : bytes := firstn (Z.to_nat n) s.
Definition drop_n (n : Z) (s : bytes) : bytes := skipn (Z.to_nat n) s.

(* chunked transfer coding: (body, the data after the trailer section) *)
Fixpoint dechunk (fuel : nat) (s : bytes) : option (bytes * bytes) :=
  match fuel with
  | O => None
  | S f =>
      match read_line s with
      | None => None
      | Some (l0, rest) =>
          let l := strip_cr l0 in
          let size_text := tp_trim (match cut 59 l with Some (a, _) => a | None => l end) in
          match size_text with
          | [] => None
          | _ =>
              match parse_hex 0 size_text with
              | None => None
              | Some n =>
                  if n =? 0 then
                    match read_lines (S (List.length rest)) rest [] with
                    | Some (_, after) => Some ([], after)
                    | None => None
                    end
                  else if (Z.of_nat (List.length rest) <? n + 2) then None
                  else
                    match drop_n n rest with
                    | a :: b :: after =>
                        if (a =? 13) && (b =? 10) then
                          match dechunk f after with
                          | Some (more, fin) => Some (take_n n rest ++ more, fin)
                          | None => None
                          end
                        else None
                    | _ => None
                    end
              end
          end
      end
  end.

Definition status_of_line (l : bytes) : option Z :=
  (* "HTTP/x.y NNN reason" *)
  match cut 32 l with
  | Some (_, r) =>
      let code := match cut 32 r with Some (c, _) => c | None => r end in
      if (List.length code =? 3)%nat then parse_dec code else None
  | None => None
  end.
Definition no_body_code (s : Z) : bool := ((100 <=? s) && (s <=? 199)) || (s =? 204) || (s =? 304).

Definition has_chunked (v : bytes) : bool :=
  (* the final transfer coding is chunked *)
  match rev (trimmed_csv v) with
  | last :: _ => beq (lower last) (bs "chunked")
  | [] => false
  end.

Record wmsg := { wm_status_line : bytes; wm_status : Z; wm_fields : list bytes; wm_body : bytes }.

(* http.ReadResponse followed by reading the body to its end *)
Definition parse_msg (s : bytes) : option wmsg :=
  match read_line s with
  | None => None
  | Some (sl0, rest) =>
      let sl := strip_cr sl0 in
      match status_of_line sl with
      | None => None
      | Some code =>
          match read_lines (S (List.length rest)) rest [] with
          | None => None
          | Some (fields, data) =>
              let mk b := Some {| wm_status_line := sl; wm_status := code; wm_fields := fields; wm_body := b |} in
              if no_body_code code then mk []
              else
                match field_value (bs "transfer-encoding") fields with
                | Some te =>
                    if has_chunked te then
                      match dechunk (S (List.length data)) data with
                      | Some (b, _) => mk b
                      | None => None
                      end
                    else mk data
                | None =>
                    match field_value (bs "content-length") fields with
                    | Some cl =>
                        match parse_dec cl with
                        | Some n => if Z.of_nat (List.length data) <? n then None else mk (take_n n data)
                        | None => None
                        end
                    | None => mk data
                    end
                end
          end
      end
  end.

(* ParseResponse: "<id>\t<requested>\t<received>\n" then the message *)
Record wentry := { we_id : bytes; we_req_at : bytes; we_recv_at : bytes; we_msg : wmsg }.
Definition parse_entry (s : bytes) : option wentry :=
  match read_line s with
  | None => None
  | Some (meta0, rest) =>
      match split_on 9 (go_trim meta0) with
      | [a; b; c] =>
          match parse_msg rest with
          | Some m => Some {| we_id := a; we_req_at := b; we_recv_at := c; we_msg := m |}
          | None => None
          end
      | _ => None
      end
  end.

(* ---------- writers of the grammar ---------- *)
Inductive framing := FrLength | FrChunked (sizes : list nat) (trailers : list bytes) | FrClose.

(* decimal and hexadecimal numerals *)
Fixpoint num_digits (base : Z) (fuel : nat) (n : Z) (acc : bytes) : bytes :=
  match fuel with
  | O => acc
  | S f =>
      let d := n mod base in
      let acc' := (if d <? 10 then 48 + d else 87 + d) :: acc in
      if n <? base then acc' else num_digits base f (n / base) acc'
  end.
Definition dec_text (n : nat) : bytes := num_digits 10 (S n) (Z.of_nat n) [].
Definition hex_text (n : nat) : bytes := num_digits 16 (S n) (Z.of_nat n) [].

(* the body cut into chunks: the i-th chunk has sizes[i]+1 bytes (or what is left); what remains after the
   list is used up goes into one last chunk *)
Fixpoint render_chunks (sizes : list nat) (body : bytes) {struct sizes} : bytes :=
  match body with
  | [] => []
  | _ =>
      match sizes with
      | [] => hex_text (List.length body) ++ crlf ++ body ++ crlf
      | n :: r =>
          let k := Nat.min (S n) (List.length body) in
          hex_text k ++ crlf ++ firstn k body ++ crlf ++ render_chunks r (skipn k body)
      end
  end.

Definition render_lines (ls : list bytes) : bytes := List.concat (map (fun l => l ++ crlf) ls).

(* status line, field lines (the framing field among them, where the framing needs one), empty line, body *)
Definition framing_field (fr : framing) (body : bytes) : list bytes :=
  match fr with
  | FrLength => [bs "Content-Length: " ++ dec_text (List.length body)]
  | FrChunked _ _ => [bs "Transfer-Encoding: chunked"]
  | FrClose => [bs "Connection: close"]
  end.
Definition render_body (fr : framing) (body : bytes) : bytes :=
  match fr with
  | FrLength | FrClose => body
  | FrChunked sizes trailers => render_chunks sizes body ++ bs "0" ++ crlf ++ render_lines trailers ++ crlf
  end.
Definition render_msg (status_line : bytes) (before after : list bytes) (fr : framing) (body : bytes) : bytes :=
  status_line ++ crlf ++ render_lines (before ++ framing_field fr body ++ after) ++ crlf ++ render_body fr body.
Definition render_entry (id req_at recv_at : bytes) (msg : bytes) : bytes :=
  id ++ [9] ++ req_at ++ [9] ++ recv_at ++ [10] ++ msg.
