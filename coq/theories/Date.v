(* Date.v — HTTP dates: http.ParseTime (IMF-fixdate, RFC 850 and asctime forms, each in its strict
   spelling with the zone GMT) and http.TimeFormat, on Unix seconds (Z).  Go's parser is more liberal
   (case-insensitive names, one-digit hours, fractional seconds, other zone abbreviations); those
   spellings are outside the modelled domain and the generators of the correspondence run keep away
   from them (see DESIGN.md §2.9). *)
From HC Require Export Base.
Open Scope Z_scope.

Definition is_leap (y : Z) : bool :=
  ((y mod 4 =? 0) && negb (y mod 100 =? 0)) || (y mod 400 =? 0).

Definition days_in_month (y m : Z) : Z :=
  if m =? 2 then (if is_leap y then 29 else 28)
  else if (m =? 4) || (m =? 6) || (m =? 9) || (m =? 11) then 30 else 31.

(* days since 1970-01-01 of the proleptic Gregorian date y-m-d *)
Definition days_from_civil (y m d : Z) : Z :=
  let y' := if m <=? 2 then y - 1 else y in
  let era := y' / 400 in
  let yoe := y' - era * 400 in
  let mp := if m >? 2 then m - 3 else m + 9 in
  let doy := (153 * mp + 2) / 5 + d - 1 in
  let doe := yoe * 365 + yoe / 4 - yoe / 100 + doy in
  era * 146097 + doe - 719468.

Definition civil_from_days (z0 : Z) : Z * Z * Z :=
  let z := z0 + 719468 in
  let era := z / 146097 in
  let doe := z - era * 146097 in
  let yoe := (doe - doe / 1460 + doe / 36524 - doe / 146096) / 365 in
  let y := yoe + era * 400 in
  let doy := doe - (365 * yoe + yoe / 4 - yoe / 100) in
  let mp := (5 * doy + 2) / 153 in
  let d := doy - (153 * mp + 2) / 5 + 1 in
  let m := if mp <? 10 then mp + 3 else mp - 9 in
  ((if m <=? 2 then y + 1 else y), m, d).

Definition month_names : list bytes :=
  [bs "Jan"; bs "Feb"; bs "Mar"; bs "Apr"; bs "May"; bs "Jun";
   bs "Jul"; bs "Aug"; bs "Sep"; bs "Oct"; bs "Nov"; bs "Dec"].
Definition day_names : list bytes :=
  [bs "Sun"; bs "Mon"; bs "Tue"; bs "Wed"; bs "Thu"; bs "Fri"; bs "Sat"].

Fixpoint index_of (x : bytes) (l : list bytes) (i : Z) : option Z :=
  match l with
  | [] => None
  | y :: r => if beq x y then Some i else index_of x r (i + 1)
  end.

Definition amem_list (x : bytes) (l : list bytes) : bool := existsb (beq x) l.

Definition num2 (a b : Z) : option Z :=
  if is_digit a && is_digit b then Some ((a - 48) * 10 + (b - 48)) else None.

(* "Mon, 02 Jan 2006 15:04:05 GMT" — exactly 29 bytes *)
Definition parse_imf_fixdate (s : bytes) : option Z :=
  match s with
  | [w1; w2; w3; c1; sp1; d1; d2; sp2; m1; m2; m3; sp3; y1; y2; y3; y4; sp4;
     h1; h2; cl1; mi1; mi2; cl2; s1; s2; sp5; g; mm; t] =>
      if (c1 =? 44) && (sp1 =? 32) && (sp2 =? 32) && (sp3 =? 32) && (sp4 =? 32) && (sp5 =? 32)
         && (cl1 =? 58) && (cl2 =? 58) && (g =? 71) && (mm =? 77) && (t =? 84)
         && amem_list [w1; w2; w3] day_names
      then
        match index_of [m1; m2; m3] month_names 1, num2 d1 d2, num2 y1 y2, num2 y3 y4,
              num2 h1 h2, num2 mi1 mi2, num2 s1 s2 with
        | Some mo, Some d, Some yh, Some yl, Some h, Some mi, Some se =>
            let y := yh * 100 + yl in
            if (1 <=? d) && (d <=? days_in_month y mo) && (h <? 24) && (mi <? 60) && (se <? 60)
            then Some (days_from_civil y mo d * 86400 + h * 3600 + mi * 60 + se)
            else None
        | _, _, _, _, _, _, _ => None
        end
      else None
  | _ => None
  end.

(* ---- the two obsolete forms http.ParseTime also accepts (RFC 9110 §5.6.7), in their strict spellings ---- *)
Definition long_day_names : list bytes :=
  [bs "Sunday"; bs "Monday"; bs "Tuesday"; bs "Wednesday"; bs "Thursday"; bs "Friday"; bs "Saturday"].

Definition civil_secs (y mo d h mi se : Z) : option Z :=
  if (1 <=? d) && (d <=? days_in_month y mo) && (h <? 24) && (mi <? 60) && (se <? 60)
  then Some (days_from_civil y mo d * 86400 + h * 3600 + mi * 60 + se)
  else None.

(* "02-Jan-06 15:04:05 GMT" after the weekday and ", " — 22 bytes; a two-digit year below 69 is 20yy, else 19yy (time.Parse) *)
Definition parse_rfc850_tail (s : bytes) : option Z :=
  match s with
  | [d1; d2; da1; m1; m2; m3; da2; y1; y2; sp1; h1; h2; cl1; mi1; mi2; cl2; s1; s2; sp2; g; mm; t] =>
      if (da1 =? 45) && (da2 =? 45) && (sp1 =? 32) && (sp2 =? 32) && (cl1 =? 58) && (cl2 =? 58)
         && (g =? 71) && (mm =? 77) && (t =? 84)
      then
        match index_of [m1; m2; m3] month_names 1, num2 d1 d2, num2 y1 y2, num2 h1 h2, num2 mi1 mi2, num2 s1 s2 with
        | Some mo, Some d, Some yy, Some h, Some mi, Some se =>
            civil_secs (if yy <? 69 then 2000 + yy else 1900 + yy) mo d h mi se
        | _, _, _, _, _, _ => None
        end
      else None
  | _ => None
  end.

(* "Monday, 02-Jan-06 15:04:05 GMT" *)
Definition parse_rfc850 (s : bytes) : option Z :=
  match cut 44 s with
  | Some (wd, 32 :: rest) => if amem_list wd long_day_names then parse_rfc850_tail rest else None
  | _ => None
  end.

(* "Mon Jan _2 15:04:05 2006" — exactly 24 bytes, the day padded with a space; no zone: UTC *)
Definition parse_asctime (s : bytes) : option Z :=
  match s with
  | [w1; w2; w3; sp1; m1; m2; m3; sp2; d1; d2; sp3; h1; h2; cl1; mi1; mi2; cl2; s1; s2; sp4; y1; y2; y3; y4] =>
      if (sp1 =? 32) && (sp2 =? 32) && (sp3 =? 32) && (sp4 =? 32) && (cl1 =? 58) && (cl2 =? 58)
         && amem_list [w1; w2; w3] day_names
      then
        match index_of [m1; m2; m3] month_names 1, num2 (if d1 =? 32 then 48 else d1) d2, num2 y1 y2, num2 y3 y4,
              num2 h1 h2, num2 mi1 mi2, num2 s1 s2 with
        | Some mo, Some d, Some yh, Some yl, Some h, Some mi, Some se => civil_secs (yh * 100 + yl) mo d h mi se
        | _, _, _, _, _, _, _ => None
        end
      else None
  | _ => None
  end.

(* http.ParseTime: the first of the three layouts that parses *)
Definition parse_http_time (s : bytes) : option Z :=
  match parse_imf_fixdate s with
  | Some t => Some t
  | None => match parse_rfc850 s with
            | Some t => Some t
            | None => parse_asctime s
            end
  end.

Definition two_digits (n : Z) : bytes := [48 + n / 10; 48 + n mod 10].
Definition four_digits (n : Z) : bytes :=
  [48 + n / 1000; 48 + (n / 100) mod 10; 48 + (n / 10) mod 10; 48 + n mod 10].

(* t.UTC().Format(http.TimeFormat) for years 0..9999 *)
Definition format_imf_fixdate (secs : Z) : bytes :=
  let days := secs / 86400 in
  let rem := secs mod 86400 in
  let '(y, m, d) := civil_from_days days in
  let wd := (days + 4) mod 7 in
  nth (Z.to_nat wd) day_names [] ++ bs ", " ++ two_digits d ++ [32] ++
  nth (Z.to_nat (m - 1)) month_names [] ++ [32] ++ four_digits y ++ [32] ++
  two_digits (rem / 3600) ++ [58] ++ two_digits ((rem / 60) mod 60) ++ [58] ++
  two_digits (rem mod 60) ++ bs " GMT".

(* Unix seconds of Go's zero time.Time (January 1, year 1, 00:00:00 UTC) *)
Definition go_zero_time_secs : Z := -62135596800.
