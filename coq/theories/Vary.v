(* Vary.v — internal/normalization.go and internal/varymatcher.go:
   normalizeHeaderValue, normalizeVaryHeaderSeq2, makeVaryKey/makeVaryHash (FNV-64a), VaryHeadersMatch. *)
From HC Require Export Header.
Open Scope Z_scope.

(* ---- FNV-64a ---- *)
Definition fnv_offset : Z := 14695981039346656037.
Definition fnv_prime : Z := 1099511628211.
Definition fnv_step (h c : Z) : Z := (Z.lxor h c * fnv_prime) mod two64.
Definition fnv64a (s : bytes) : Z := fold_left fnv_step s fnv_offset.

(* ---- header classes ---- *)
Definition in_names (f : bytes) (l : list bytes) : bool := existsb (beq f) l.
Definition by_qvalue := [bs "Accept"; bs "Accept-Charset"; bs "Accept-Language"].
Definition by_encoding := [bs "Content-Encoding"; bs "Accept-Encoding"; bs "TE"].
Definition by_time := [bs "If-Modified-Since"; bs "If-Unmodified-Since"; bs "Date"].
Definition by_order :=
  [bs "Cache-Control"; bs "Connection"; bs "Content-Language"; bs "Expect"; bs "Pragma";
   bs "Upgrade"; bs "Vary"; bs "Via"].
Definition by_case :=
  [bs "Content-Type"; bs "Content-Disposition"; bs "Host"; bs "Referer"; bs "User-Agent";
   bs "Server"; bs "Origin"].

Definition normalize_order_insensitive (v : bytes) : bytes :=
  join [44] (sort_bytes (trimmed_csv v)).

(* strings.NewReplacer("x-gzip","gzip","x-compress","compress").Replace *)
Fixpoint enc_replace (skip : nat) (s : bytes) : bytes :=
  match s with
  | [] => []
  | c :: r =>
      match skip with
      | S k => enc_replace k r
      | O =>
          if has_prefix (bs "x-gzip") s then bs "gzip" ++ enc_replace 5 r
          else if has_prefix (bs "x-compress") s then bs "compress" ++ enc_replace 9 r
          else c :: enc_replace 0 r
      end
  end.

(* ---- q-values.  Modelled domain: q arguments of the form DIGITS or DIGITS "." DIGIT{0,3};
   anything else makes the whole normalisation [None] (outside the model). q is kept in thousandths. *)
Definition parse_q_thousandths (s : bytes) : option Z :=
  match cut 46 s with
  | None => if all_digits s && negb (beq s []) then Some (digits_val 0 s * 1000) else None
  | Some (ip, fp) =>
      if all_digits ip && negb (beq ip []) && all_digits fp && (Z.of_nat (List.length fp) <=? 3) then
        let scale := match List.length fp with O => 1000 | 1%nat => 100 | 2%nat => 10 | _ => 1 end in
        Some (digits_val 0 ip * 1000 + digits_val 0 fp * scale)
      else None
  end.

(* strconv.FormatFloat(q,'f',3,64) then trim zeros and the dot, for q = k/1000, 1 <= k <= 1000 *)
Definition format_q (k : Z) : bytes :=
  let ip := dec_of_nonneg (k / 1000) in
  let f := k mod 1000 in
  let ds := [48 + f / 100; 48 + (f / 10) mod 10; 48 + f mod 10] in
  let ds' := rev (drop_while (fun c => c =? 48) (rev ds)) in
  match ds' with [] => ip | _ => ip ++ [46] ++ ds' end.

Record qpart := { q_main : bytes; q_q : Z; q_params : list bytes }.

Inductive qres := QSkip | QBad | QOk (p : qpart).

Definition eq_fold2 (a b : Z) : bool := ((to_lower a =? 113) && (b =? 61)).

Fixpoint q_params_loop (params : list bytes) (q : Z) (acc : list bytes) : option (option (Z * list bytes)) :=
  (* None = outside model; Some None = skip part (q=0); Some (Some (q, params)) *)
  match params with
  | [] => Some (Some (q, acc))
  | p0 :: r =>
      let p := go_trim p0 in
      match p with
      | a :: b :: c :: t =>
          if eq_fold2 a b then
            let qraw := c :: t in
            if beq qraw (bs "0") || beq qraw (bs "0.0") then Some None
            else match parse_q_thousandths qraw with
                 | Some k => q_params_loop r (Z.min (Z.max k 1) 1000) acc
                 | None => None
                 end
          else q_params_loop r q (acc ++ [p])
      | [] => q_params_loop r q acc
      | _ => q_params_loop r q (acc ++ [p])
      end
  end.

Definition q_of_part (part : bytes) : qres :=
  match cut 59 part with
  | None => QOk {| q_main := part; q_q := 1000; q_params := [] |}
  | Some (main, raw) =>
      match q_params_loop (split_on 59 raw) 1000 [] with
      | None => QBad
      | Some None => QSkip
      | Some (Some (q, ps)) => QOk {| q_main := main; q_q := q; q_params := sort_bytes ps |}
      end
  end.

Fixpoint lcmp (a b : list bytes) : comparison :=
  match a, b with
  | [], [] => Eq
  | [], _ => Lt
  | _, [] => Gt
  | x :: a', y :: b' => match bcmp x y with Eq => lcmp a' b' | c => c end
  end.

Definition cmp_or (c1 c2 : comparison) : comparison := match c1 with Eq => c2 | _ => c1 end.

Definition qpart_cmp (a b : qpart) : comparison :=
  cmp_or (q_q b ?= q_q a)
 (cmp_or (count_byte 42 (q_main a) ?= count_byte 42 (q_main b))
 (cmp_or (bcmp (q_main a) (q_main b))
 (cmp_or (Z.of_nat (List.length (q_params b)) ?= Z.of_nat (List.length (q_params a)))
         (lcmp (q_params a) (q_params b))))).
Definition qpart_le (a b : qpart) : bool := match qpart_cmp a b with Gt => false | _ => true end.

(* slices.CompactFunc: drop an element equal (by main) to its predecessor *)
Fixpoint compact_from (prev : option bytes) (l : list qpart) : list qpart :=
  match l with
  | [] => []
  | x :: r =>
      match prev with
      | Some m => if beq m (q_main x) then compact_from prev r
                  else x :: compact_from (Some (q_main x)) r
      | None => x :: compact_from (Some (q_main x)) r
      end
  end.
Definition compact_main (l : list qpart) : list qpart := compact_from None l.

Definition render_qpart (p : qpart) : bytes :=
  q_main p ++ flat_map (fun x => 59 :: x) (q_params p) ++
  (if q_q p =? 1000 then [] else bs ";q=" ++ format_q (q_q p)).

Fixpoint collect_qparts (parts : list bytes) : option (list qpart) :=
  match parts with
  | [] => Some []
  | p :: r =>
      match q_of_part p, collect_qparts r with
      | QBad, _ => None
      | _, None => None
      | QSkip, Some l => Some l
      | QOk q, Some l => Some (q :: l)
      end
  end.

Definition normalize_qvalues (v : bytes) : option bytes :=
  match collect_qparts (trimmed_csv v) with
  | None => None
  | Some qs => Some (join [44] (map render_qpart (compact_main (isort qpart_le qs))))
  end.

(* strings.SplitN(value, " ", 2) + lower-casing of the scheme *)
Definition normalize_authorization (v : bytes) : bytes :=
  match cut 32 v with
  | Some (a, b) => lower a ++ [32] ++ b
  | None => v
  end.

(* normalizeHeaderValue; [None] = outside the modelled domain (q-value syntax not modelled) *)
Definition normalize_header_value (field value : bytes) : option bytes :=
  match value with
  | [] => Some []
  | _ =>
      if in_names field by_encoding then
        let v := normalize_order_insensitive (enc_replace 0 value) in
        if beq field (bs "Content-Encoding") then Some v else normalize_qvalues v
      else if in_names field by_qvalue then normalize_qvalues value
      else if in_names field by_order then Some (normalize_order_insensitive value)
      else if in_names field by_case then Some (lower value)
      else if in_names field by_time then Some (go_trim value)
      else if beq field (bs "Authorization") then Some (normalize_authorization value)
      else Some value
  end.

(* ---- normalizeVaryHeaderSeq2 + maps.Collect: canonical field name -> normalised first field line ---- *)
Definition resolved := list (bytes * bytes).

Definition first_line (name : bytes) (h : headers) : option bytes :=
  match hvalues name h with v :: _ => Some v | [] => None end.

Fixpoint resolve_names (names : list bytes) (h : headers) (acc : resolved) : option resolved :=
  match names with
  | [] => Some acc
  | n :: r =>
      let v := match first_line n h with
               | Some x => normalize_header_value n x
               | None => Some []
               end in
      match v with
      | Some x => resolve_names r h (aset n x acc)
      | None => None
      end
  end.

Definition normalize_vary (vary : bytes) (req_hdr : headers) : option resolved :=
  resolve_names (trimmed_csv_canonical vary) req_hdr [].

(* ---- makeVaryKey ---- *)
Definition sort_resolved (m : resolved) : resolved :=
  isort (fun a b => ble (fst a) (fst b)) m.

Definition vary_encoding (m : resolved) : bytes :=
  flat_map (fun kv => fst kv ++ [0] ++ snd kv ++ [0]) (sort_resolved m).

Definition make_vary_key (url_key : bytes) (m : resolved) : bytes :=
  match m with
  | [] => url_key ++ bs "#0"
  | _ => url_key ++ [35] ++ dec_of_nonneg (fnv64a (vary_encoding m))
  end.

(* ---- refs and VaryHeadersMatch ---- *)
Record ref := {
  r_id : bytes;
  r_vary : bytes;
  r_resolved : resolved;
  r_recv : Z           (* the Date of the response, ns; Go's zero time when it had none *)
}.

Definition ref_class (r : ref) : Z * Z :=
  let v := go_trim (r_vary r) in
  ((if beq v (bs "*") then 1 else 0), (if beq v [] then 1 else 0)).

Definition ref_le (a b : ref) : bool :=
  let '(sa, na) := ref_class a in
  let '(sb, nb) := ref_class b in
  if sa <? sb then true else if sb <? sa then false
  else if na <? nb then true else if nb <? na then false
  else r_recv a <=? r_recv b.

Definition sort_refs (l : list ref) : list ref := isort ref_le l.

(* time.Time.Compare: -1, 0, +1 (table entry of the translator for the comparator of VaryHeadersMatch) *)
Definition time_compare (a b : Z) : Z :=
  match a ?= b with Lt => -1 | Eq => 0 | Gt => 1 end.

Fixpoint resolved_match (m : resolved) (h : headers) : option bool :=
  match m with
  | [] => Some true
  | (f, v) :: r =>
      let rv := match first_line f h with
                | Some x => normalize_header_value f x
                | None => Some []
                end in
      match rv with
      | None => None
      | Some x => if beq x v then resolved_match r h else Some false
      end
  end.

Definition ref_matches (r : ref) (h : headers) : option bool :=
  if amem (bs "*") (r_resolved r) || beq (go_trim (r_vary r)) (bs "*") then Some false
  else resolved_match (r_resolved r) h.

(* the matching ref with the latest Date; of equally recent ones the last in the sorted order *)
Fixpoint find_match (l : list ref) (h : headers) (i : Z) (best : option (Z * Z)) : option (option Z) :=
  match l with
  | [] => Some (option_map fst best)
  | r :: rest =>
      match ref_matches r h with
      | None => None
      | Some true =>
          let better := match best with
                        | None => true
                        | Some (_, t) => t <=? r_recv r
                        end in
          find_match rest h (i + 1) (if better then Some (i, r_recv r) else best)
      | Some false => find_match rest h (i + 1) best
      end
  end.

(* returns the sorted slice (the sort is in place in Go and the sorted order is what is stored back)
   and the index of the first match.  Outer [None]: outside the modelled domain. *)
Definition vary_headers_match (refs : list ref) (h : headers) : option (list ref * option Z) :=
  let s := sort_refs refs in
  match find_match s h 0 None with
  | None => None
  | Some i => Some (s, i)
  end.
