(* CC.v — Cache-Control parsing: internal/ccdirectives.go.
   directivesSeq2 / parseDirectives / RawDeltaSeconds.Value and the accessors of
   CCRequestDirectives and CCResponseDirectives. *)
From HC Require Export Header.
Open Scope Z_scope.

Definition directives := list (bytes * bytes).   (* a Go map: at most one binding per key *)

(* one element of the comma-separated list -> (key, value); [None] when the key is empty *)
Definition directive_of_part (part : bytes) : option (bytes * bytes) :=
  let '(k0, v) :=
    match cut 61 part with
    | Some (k, v) => (k, tp_trim v)
    | None => (part, [])
    end in
  (* strings.ToLower(textproto.TrimString(key)); ASCII only in the modelled domain *)
  let k := lower (tp_trim k0) in
  match k with [] => None | _ => Some (k, v) end.

(* parseDirectives: a later binding of the same key overwrites an earlier one — except no-cache (RFC 9111 §5.2.2.4), whose
   occurrences add up: unqualified as soon as one occurrence is, otherwise the field names of all of them.  The combined
   argument is kept unquoted (the accessor reads it with ParseQuotedString again, which leaves what is not a
   quoted-string as it is). *)
Definition no_cache_name : bytes := bs "no-cache".
Definition merge_args (a b : bytes) : bytes := if beq a [] || beq b [] then [] else a ++ [44] ++ b.
Definition merge_no_cache (prev v : bytes) : bytes := merge_args (parse_quoted_string prev) (parse_quoted_string v).
Definition combine_directive (k : bytes) (prev : option bytes) (v : bytes) : bytes :=
  match prev with
  | Some p => if beq k no_cache_name then merge_no_cache p v else v
  | None => v
  end.
Fixpoint collect (parts : list bytes) (m : directives) : directives :=
  match parts with
  | [] => m
  | p :: r =>
      match directive_of_part p with
      | Some (k, v) => collect r (aset k (combine_directive k (alookup k m) v) m)
      | None => collect r m
      end
  end.

Definition parse_directives (s : bytes) : directives := collect (trimmed_csv s) [].

(* ParseCCRequestDirectives / ParseCCResponseDirectives: all field lines joined with "," *)
Definition cc_name : bytes := bs "Cache-Control".
Definition parse_cc (h : headers) : directives :=
  match join [44] (hvalues cc_name h) with
  | [] => []
  | v => parse_directives v
  end.

Definition has_token (d : directives) (t : bytes) : bool := amem t d.

(* RawDeltaSeconds.Value: (duration in ns after Go's wrapping multiplication, valid) *)
Definition max_delta_seconds : Z := max64 / second.
Definition delta_seconds (r : bytes) : option Z :=
  match r with
  | [] => None
  | c :: _ =>
      if (c =? 45) || (c =? 43) then None
      else match parse_int64 r with
           | PI_ok v => Some (if max_delta_seconds <? v then max64 else v * second)
           | PI_range v => Some (if max_delta_seconds <? v then max64 else v * second)
           | PI_syntax => None
           end
  end.

Definition duration_directive (d : directives) (t : bytes) : option Z :=
  match alookup t d with
  | Some v => delta_seconds (parse_quoted_string v)
  | None => None
  end.

(* request directives *)
Definition req_max_age (d : directives) := duration_directive d (bs "max-age").
Definition req_max_stale_raw (d : directives) : option bytes :=
  option_map parse_quoted_string (alookup (bs "max-stale") d).
Definition req_min_fresh (d : directives) := duration_directive d (bs "min-fresh").
Definition req_no_cache (d : directives) := has_token d (bs "no-cache").
Definition req_no_store (d : directives) := has_token d (bs "no-store").
Definition req_only_if_cached (d : directives) := has_token d (bs "only-if-cached").
Definition req_stale_if_error (d : directives) := duration_directive d (bs "stale-if-error").

(* response directives *)
Definition resp_max_age (d : directives) := duration_directive d (bs "max-age").
Definition resp_max_age_present (d : directives) := has_token d (bs "max-age").
Definition resp_must_revalidate (d : directives) := has_token d (bs "must-revalidate").
Definition resp_must_understand (d : directives) := has_token d (bs "must-understand").
Definition resp_no_store (d : directives) := has_token d (bs "no-store").
Definition resp_public (d : directives) := has_token d (bs "public").
Definition resp_immutable (d : directives) := has_token d (bs "immutable").
Definition resp_stale_if_error (d : directives) := duration_directive d (bs "stale-if-error").
Definition resp_swr (d : directives) := duration_directive d (bs "stale-while-revalidate").
(* NoCache(): (fields raw, present) *)
Definition resp_no_cache (d : directives) : option bytes :=
  match alookup (bs "no-cache") d with
  | Some v => Some (parse_quoted_string v)
  | None => None
  end.
(* RawCSVSeq.Value: qualified iff non-empty *)
Definition no_cache_fields (raw : bytes) : option (list bytes) :=
  match raw with [] => None | _ => Some (trimmed_csv raw) end.
