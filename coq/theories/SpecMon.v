(* SpecMon.v — specification-level definitions and monitors for the remaining history properties:
   URI equivalence (RFC 3986 §6.2.2-6.2.3), variant equivalence, must-not-store, invalidation,
   freshening, liveness of fresh entries, Age/status truthfulness, stale-if-error, footprint. *)
From HC Require Export Spec.
Open Scope Z_scope.

(* ---------- URI normal form (spec; written after the RFC, not after the Go code) ---------- *)
(* percent-encoding normalisation: decode %XX of ASCII unreserved, upper-case the other escapes *)
Fixpoint spec_pct (skip : nat) (s : bytes) : bytes :=
  match s with
  | [] => []
  | c :: r =>
      match skip with
      | S k => spec_pct k r
      | O =>
          match r with
          | h1 :: h2 :: _ =>
              if (c =? 37) && is_hex h1 && is_hex h2 then
                let v := from_hex h1 * 16 + from_hex h2 in
                (if is_unreserved_ascii v then [v] else pct_upper v) ++ spec_pct 2 r
              else c :: spec_pct 0 r
          | _ => c :: spec_pct 0 r
          end
      end
  end.

(* RFC 3986 §5.2.4 on the segments of an absolute path *)
Fixpoint dot_segments (segs : list bytes) (stack : list bytes) : list bytes * bool :=
  (* returns the reversed stack and whether the path ends with a slash *)
  match segs with
  | [] => (stack, false)
  | [s] =>
      if beq s [46] then (stack, true)
      else if beq s [46; 46] then (tl stack, true)
      else (s :: stack, false)
  | s :: r =>
      if beq s [46] then dot_segments r stack
      else if beq s [46; 46] then dot_segments r (tl stack)
      else dot_segments r (s :: stack)
  end.

Definition spec_remove_dots (path : bytes) : bytes :=
  match path with
  | [] => [47]
  | c :: rest =>
      if c =? 47 then
        let '(st, slash) := dot_segments (split_on 47 rest) [] in
        47 :: join [47] (rev st) ++ (if slash then (match st with [] => [] | _ => [47] end) else [])
      else path
  end.

Record nurl := { n_scheme : bytes; n_host : bytes; n_port : bytes; n_path : bytes; n_query : bytes }.

Definition rfc_norm (u : url) : nurl :=
  let scheme := lower (u_scheme u) in
  let hp := u_host u in
  let colon := last_index 58 hp 0 (-1) in
  let '(host, port) :=
    if negb (colon =? -1) && valid_optional_port (drop colon hp) then (take colon hp, drop (colon + 1) hp)
    else (hp, []) in
  let port' := match port with [] => default_port scheme | _ => port end in
  {| n_scheme := scheme; n_host := lower host; n_port := port';
     n_path := spec_remove_dots (spec_pct 0 (u_path u));
     n_query := spec_pct 0 (u_query u) |}.

Definition nurl_eqb (a b : nurl) : bool :=
  beq (n_scheme a) (n_scheme b) && beq (n_host a) (n_host b) && beq (n_port a) (n_port b) &&
  beq (n_path a) (n_path b) && beq (n_query a) (n_query b).

Definition uri_equiv (a b : url) : bool := nurl_eqb (rfc_norm a) (rfc_norm b).
Definition same_origin_spec (a b : url) : bool :=
  let x := rfc_norm a in let y := rfc_norm b in
  beq (n_scheme x) (n_scheme y) && beq (n_host x) (n_host y) && beq (n_port x) (n_port y).

(* ---------- the domain of the key theorems (Props/C03.v) ---------- *)
(* every % is followed by two hex digits *)
Fixpoint pct_wf (skip : nat) (s : bytes) : bool :=
  match s with
  | [] => true
  | c :: r =>
      match skip with
      | S k => pct_wf k r
      | O => if c =? 37 then match r with h1 :: h2 :: _ => is_hex h1 && is_hex h2 && pct_wf 2 r | _ => false end
             else pct_wf 0 r
      end
  end.


(* the host[:port] split both the key and the normal form use *)
Definition hp_split (hp : bytes) : bytes * bytes :=
  let colon := last_index 58 hp 0 (-1) in
  if negb (colon =? -1) && valid_optional_port (drop colon hp) then (take colon hp, drop (colon + 1) hp) else (hp, []).

(* well-formed host (after the port is split off): a reg-name, or an IP literal in brackets with a colon inside *)
Definition host0_wf (h0 : bytes) : bool :=
  match h0 with
  | c :: r =>
      if c =? 91 then has_suffix [93] r && forallb ip6_byte_ok (removelast r) && contains_byte 58 (removelast r)
      else forallb host_byte_ok h0
  | [] => true
  end.

Definition url_wf (u : url) : bool :=
  (beq (u_scheme u) (bs "http") || beq (u_scheme u) (bs "https")) &&
  host0_wf (fst (hp_split (u_host u))) && all_digits (snd (hp_split (u_host u))) &&
  match u_path u with [] => true | c :: _ => c =? 47 end &&
  pct_wf 0 (u_path u) && negb (contains_byte 63 (u_path u)).


(* ---------- requests ---------- *)
Definition plain_get (q : request) : bool :=
  is_get (q_method q) && beq (hget (bs "Range") (q_hdr q)) [].

(* IANA HTTP method registry, "safe" column *)
Definition spec_safe_method (m : bytes) : bool :=
  in_names m [bs "GET"; bs "HEAD"; bs "OPTIONS"; bs "TRACE"; bs "PROPFIND"; bs "REPORT"; bs "SEARCH";
              bs "PRI"; bs "QUERY"].

(* ---------- variants ---------- *)
(* the members of a Vary field value; "*" anywhere makes the response unusable without validation *)
Definition vary_members (h : headers) : list bytes :=
  trimmed_csv_canonical (join [44] (hvalues (bs "Vary") h)).
Definition vary_has_star (h : headers) : bool := existsb (beq (bs "*")) (vary_members h).

(* two requests select the same variant for field f: absent or empty matches only absent or empty,
   otherwise the first field lines are equal after the normalisation the cache documents *)
Definition same_selecting (f : bytes) (q1 q2 : request) : option bool :=
  let v1 := match first_line f (q_hdr q1) with Some x => x | None => [] end in
  let v2 := match first_line f (q_hdr q2) with Some x => x | None => [] end in
  match normalize_header_value f v1, normalize_header_value f v2 with
  | Some a, Some b => Some (beq a b)
  | _, _ => None
  end.

Fixpoint all_some_true (l : list (option bool)) : option bool :=
  match l with
  | [] => Some true
  | None :: _ => None
  | Some false :: r => match all_some_true r with None => None | Some _ => Some false end
  | Some true :: r => all_some_true r
  end.

Definition variant_match (stored_hdr : headers) (q0 q : request) : option bool :=
  if vary_has_star stored_hdr then Some false
  else all_some_true (map (fun f => same_selecting f q0 q) (vary_members stored_hdr)).

(* ---------- storing ---------- *)
Definition spec_hop_by_hop (h : headers) : list bytes :=
  [bs "Connection"; bs "Keep-Alive"; bs "Te"; bs "Transfer-Encoding"; bs "Upgrade"; bs "Proxy-Connection";
   bs "Proxy-Authenticate"; bs "Proxy-Authentication-Info"; bs "Proxy-Authorization"]
  ++ flat_map trimmed_csv_canonical (hvalues (bs "Connection") h).

Definition spec_status_understood (s : Z) : bool :=
  (s =? 200) || (s =? 203) || (s =? 204) || (s =? 300) || (s =? 301) || (s =? 308) || (s =? 404) ||
  (s =? 405) || (s =? 410) || (s =? 414) || (s =? 501).

Definition hhas_line (n : bytes) (h : headers) : bool := negb (beq (hget n h) []).

Definition must_not_store (q : request) (r : response) : bool :=
  let cc := spec_cc (p_hdr r) in
  let rcc := spec_cc (q_hdr q) in
  let s := p_status r in
  sd_has (bs "no-store") cc || sd_has (bs "no-store") rcc ||
  negb (plain_get q) ||
  (s <? 200) || (s =? 206) || (s =? 304) || (600 <=? s) ||
  (sd_has (bs "must-understand") cc && negb (spec_status_understood s)) ||
  (negb (sd_has (bs "max-age") cc) && negb (hhas_line (bs "Expires") (p_hdr r)) && negb (sd_has (bs "public") cc)
   && negb (spec_heuristic_status s)) ||
  negb (p_body_ok r).

Fixpoint forallb2_eq (a b : list bytes) : bool :=
  match a, b with
  | [], [] => true
  | x :: a', y :: b' => beq x y && forallb2_eq a' b'
  | _, _ => false
  end.

(* ---------- looking things up in the past ---------- *)
(* the exchange (its client request) whose foreground or background wrote the entry now under key k *)
Fixpoint stored_by (k : bytes) (past : hist) (acc : option (request * stored_entry)) : option (request * stored_entry) :=
  match past with
  | [] => acc
  | (q, o) :: r =>
      let evs := x_events o ++ x_bg_events o in
      let acc' :=
        fold_left (fun a ev =>
          match ev with
          | EvSetEntry k' e => if beq k k' then Some (q, e) else a
          | EvDel k' _ => if beq k k' then None else a
          | _ => a
          end) evs acc in
      stored_by k r acc'
  end.

Definition bg_calls (o : exchange_obs) : list (Z * request * Z * Z * origin_reply) :=
  flat_map (fun ev => match ev with EvCall i q a b rep => [(i, q, a, b, rep)] | _ => [] end) (x_bg_events o).

Definition set_entries (evs : list event) : list (bytes * stored_entry) :=
  flat_map (fun ev => match ev with EvSetEntry k e => [(k, e)] | _ => [] end) evs.

Definition resp_of (o : exchange_obs) : option response :=
  match x_result o with Done (OResp r) => Some r | _ => None end.

Definition num_header (n : bytes) (h : headers) : option Z :=
  match hvalues n h with
  | [v] => if all_digits v && negb (beq v []) then Some (digits_val 0 v) else None
  | _ => None
  end.

Section Monitors2.
  Variable script : list (Z * origin_reply * origin_reply).
  Variable past : hist.
  Variable q : request.
  Variable o : exchange_obs.

  Let prefix := all_events past.
  Let how_ := classify script o.
  Let stored_ := stored_of prefix o.

  Definition reply_of_call (c : Z * request * Z * Z * origin_reply) : origin_reply := call_reply script c.

  (* who stored the entry that was read *)
  Definition storer : option (request * stored_entry) :=
    match read_entry_key (x_events o) with
    | Some k => stored_by k past None
    | None => None
    end.

  (* C03 — served from the store only for a plain GET, from an entry stored by a plain GET for an
     equivalent URI *)
  Definition mon_C03 : verdict :=
    match how_ with
    | FromStore | Validated _ =>
        match storer with
        | Some (q0, _) =>
            if negb (plain_get q) then VBad 1
            else if negb (plain_get q0) then VBad 2
            else if uri_equiv (q_url q0) (q_url q) then VOk else VBad 3
        | None => VBad 4
        end
    | _ => VNa
    end.

  (* C04 — served without validation only for a matching variant; never when Vary has "*" *)
  Definition mon_C04 : verdict :=
    match how_ with
    | FromStore =>
        match storer with
        | Some (q0, e) =>
            match variant_match (e_hdr e) q0 q with
            | Some true => VOk
            | Some false => VBad (if vary_has_star (e_hdr e) then 2 else 1)
            | None => VNa
            end
        | None => VBad 3
        end
    | _ => VNa
    end.

  (* C05 (history part) — what is served from the store is the stored representation: status, body,
     every stored end-to-end field; only Age, the status fields and fields replaced by a 304 may differ;
     no hop-by-hop field is ever stored; a miss forwards the origin's body. *)
  Definition cache_own_field (n : bytes) : bool :=
    in_names n [bs "Age"; status_header; from_cache_header].
  Definition headers_preserved (stored served : headers) (except : list bytes) : bool :=
    forallb (fun kv =>
      cache_own_field (fst kv) || in_names (fst kv) except ||
      match alookup (fst kv) served with
      | Some vs => forallb2_eq vs (snd kv)
      | None => false
      end) stored.
  Definition no_extra_fields (stored served : headers) (allowed : list bytes) : bool :=
    forallb (fun kv => cache_own_field (fst kv) || in_names (fst kv) allowed || amem (fst kv) stored) served.

  Definition stored_hop_free (evs : list event) : bool :=
    forallb (fun ke => forallb (fun kv => negb (in_names (fst kv) (spec_hop_by_hop (e_hdr (snd ke))))
                                         && negb (in_names (fst kv) [bs "Connection"; bs "Keep-Alive"; bs "Te";
                                              bs "Transfer-Encoding"; bs "Upgrade"; bs "Proxy-Connection";
                                              bs "Proxy-Authenticate"; bs "Proxy-Authentication-Info";
                                              bs "Proxy-Authorization"]))
                                (e_hdr (snd ke))) (set_entries evs).

  (* what is written for a full origin reply is that reply: status, body, every end-to-end field *)
  Definition write_faithful (ke : bytes * stored_entry) : bool :=
    let e := snd ke in
    match call_index (e_hdr e) with
    | None => true
    | Some c =>
        match find (fun cl => let '(i, _, _, _, _) := cl in i =? c) (fg_calls o ++ bg_calls o) with
        | None => true
        | Some cl =>
            match reply_of_call cl with
            | RErr => true
            | RResp rep =>
                if (p_status rep =? 304) then
                  (* a freshened entry (C08); but no field the 304 itself marks hop-by-hop may be taken from it *)
                  forallb (fun kv =>
                    negb (in_names (fst kv) (spec_hop_by_hop (p_hdr rep))) ||
                    match alookup (fst kv) (e_hdr e) with
                    | Some vs =>
                        negb (forallb2_eq vs (snd kv)) ||
                        match stored_ with
                        | Some s => match alookup (fst kv) (sv_hdr s) with Some vs' => forallb2_eq vs' (snd kv) | None => false end
                        | None => false
                        end
                    | None => true
                    end) (p_hdr rep)
                else
                  (e_status e =? p_status rep) &&
                  (e_body e =? (if no_body_status (p_status rep) then -1 else c)) &&
                  forallb (fun kv => in_names (fst kv) (spec_hop_by_hop (p_hdr rep)) ||
                                     match alookup (fst kv) (e_hdr e) with
                                     | Some vs => forallb2_eq vs (snd kv)
                                     | None => false
                                     end) (p_hdr rep) &&
                  forallb (fun kv => amem (fst kv) (p_hdr rep) || beq (fst kv) (bs "Date")) (e_hdr e)
            end
        end
    end.

  (* C02 (qualified no-cache) — a response given out without a successful validation in this exchange (a hit, a stale
     answer under stale-while-revalidate or max-stale, a stale-if-error answer) carries none of the fields the stored
     response's no-cache="..." names; the cache's own Age and status fields, written afterwards, are not the origin's *)
  Definition spec_qualified_names (cc : directives) : list bytes :=
    match sd_arg (bs "no-cache") cc with
    | Some a => map canonical_key
                  (filter (fun x => negb (beq x []))
                     (map (trim_with (fun c => (c =? 32) || (c =? 9))) (split_on 44 a)))
    | None => []
    end.
  Definition mon_C02q : verdict :=
    match how_, resp_of o, stored_ with
    | FromStore, Some r, Some s =>
        let own := [bs "Age"; status_header; from_cache_header] in
        if existsb (fun n => negb (in_names n own) && amem n (p_hdr r)) (spec_qualified_names (spec_cc (sv_hdr s)))
        then VBad 40 else VOk
    | _, _, _ => VNa
    end.

  Definition mon_C05 : verdict :=
    let hop_ok := stored_hop_free (x_events o ++ x_bg_events o) in
    if negb hop_ok then VBad 5
    else if negb (forallb write_faithful (set_entries (x_events o ++ x_bg_events o))) then VBad 9 else
    match how_, resp_of o with
    | FromStore, Some r =>
        match stored_ with
        | Some s =>
            let strip := match sd_arg (bs "no-cache") (spec_cc (sv_hdr s)) with
                         | Some a => map canonical_key (trimmed_csv a) | None => [] end in
            if negb (p_status r =? sv_status s) then VBad 1
            else if negb (p_body r =? sv_body s) || negb (p_body_ok r) then VBad 2
            else if negb (headers_preserved (sv_hdr s) (p_hdr r) strip) then VBad 3
            else if negb (no_extra_fields (sv_hdr s) (p_hdr r) []) then VBad 4
            else VOk
        | None => VBad 6
        end
    | Validated i, Some r =>
        match stored_, find_call i (x_events o) with
        | Some s, Some (cq, _, _, rep) =>
            match scripted_reply script i (is_conditional cq) with
            | RResp nm =>
                (* the cache supplies a Date to a 304 that has none (RFC 9110 §6.6.1) *)
                let replaced := bs "Date" :: map fst (p_hdr nm) in
                if negb (p_status r =? sv_status s) then VBad 1
                else if negb (p_body r =? sv_body s) || negb (p_body_ok r) then VBad 2
                else if negb (headers_preserved (sv_hdr s) (p_hdr r) replaced) then VBad 3
                else if negb (no_extra_fields (sv_hdr s) (p_hdr r) replaced) then VBad 4
                else VOk
            | RErr => VBad 7
            end
        | _, _ => VBad 6
        end
    | FromOrigin i, Some r =>
        (* the origin's exact body is forwarded *)
        match scripted_reply script i (existsb (fun c => let '(j, cq, _, _, _) := c in (j =? i) && is_conditional cq) (fg_calls o)) with
        | RResp orig =>
            if negb (p_body_ok orig) then (if p_body_ok r then VBad 8 else VOk)   (* a broken stream stays broken *)
            else if (p_body r =? (if no_body_status (p_status orig) then -1 else i)) && p_body_ok r
            then VOk else VBad 8
        | RErr => VBad 7
        end
    | _, _ => VNa
    end.

  (* C06 — nothing of a must-not-store response is written; an unconditional GET never gets a 304 *)
  Definition client_conditional (rq : request) : bool :=
    existsb (fun n => negb (beq (hget n (q_hdr rq)) []))
      [bs "If-None-Match"; bs "If-Modified-Since"; bs "If-Match"; bs "If-Unmodified-Since"; bs "If-Range"].

  Definition write_allowed (ke : bytes * stored_entry) : bool :=
    let e := snd ke in
    match call_index (e_hdr e) with
    | None => false
    | Some c =>
        match find (fun cl => let '(i, _, _, _, _) := cl in i =? c) (fg_calls o ++ bg_calls o) with
        | None => false            (* written from a reply that is not of this exchange *)
        | Some cl =>
            match reply_of_call cl with
            | RErr => false
            | RResp rep =>
                if (p_status rep =? 304) && negb (e_status e =? 304) then
                  (* freshening of a stored response by a 304 *)
                  plain_get q && negb (sd_has (bs "no-store") (spec_cc (q_hdr q)))
                  && negb (sd_has (bs "no-store") (spec_cc (p_hdr rep)))
                else
                  negb (must_not_store q {| p_status := p_status rep; p_hdr := p_hdr rep; p_body := c;
                                            p_body_ok := p_body_ok rep |})
                  && (e_status e =? p_status rep)
            end
        end
    end.

  Definition mon_C06 : verdict :=
    let writes := set_entries (x_events o ++ x_bg_events o) in
    if negb (forallb write_allowed writes) then VBad 1
    else match resp_of o with
         | Some r => if (p_status r =? 304) && is_get (q_method q) && negb (client_conditional q)
                        && negb (match how_ with
                                 | FromOrigin i =>   (* the origin's own 304 to an unconditional request, passed on *)
                                     existsb (fun cl => let '(j, cq, _, _, _) := cl in (j =? i) && negb (is_conditional cq)) (fg_calls o)
                                 | _ => false end)
                     then VBad 2
                     else (match writes with [] => VNa | _ => VOk end)
         | None => match writes with [] => VNa | _ => VOk end
         end.

  Definition last_index_ids (evs : list event) (k : bytes) : option (list bytes) :=
    fold_left (fun a ev => match ev with
                           | EvSetRefs k' l => if beq k k' then Some (map (fun r => match r with Some x => r_id x | None => [] end) l) else a
                           | EvDel k' _ => if beq k k' then None else a
                           | _ => a end) evs None.


  (* C07 — after an unsafe request with a 2xx/3xx reply, nothing stored earlier for the target or for a
     same-origin Location / Content-Location URI is served again without validation *)
  Definition invalidating (x : request * exchange_obs) : list url :=
    let '(qj, oj) := x in
    if spec_safe_method (q_method qj) then []
    else match resp_of oj with
         | Some r =>
             if (200 <=? p_status r) && (p_status r <? 400) then
               q_url qj ::
               flat_map (fun hn =>
                 match hget hn (p_hdr r) with
                 | [] => []
                 | loc => match parse_url loc with
                          | Some pr => let lu := resolve_reference (q_url qj) pr in
                                       if same_origin_spec (q_url qj) lu then [lu] else []
                          | None => []
                          end
                 end) [bs "Location"; bs "Content-Location"]
             else []
         | None => []
         end.

  (* was the entry under key k written before position n of the past and not since? returns the
     invalidating URIs of exchanges after its last write *)
  Fixpoint invalidations_since (k : bytes) (past0 : hist) (acc : list url) : list url :=
    match past0 with
    | [] => acc
    | (qj, oj) :: r =>
        let wrote := existsb (fun ke => beq (fst ke) k) (set_entries (x_events oj ++ x_bg_events oj)) in
        let acc1 := if wrote then [] else acc in
        (* an unsafe exchange that also re-stored the entry cannot occur (unsafe methods never store) *)
        invalidations_since k r (acc1 ++ invalidating (qj, oj))
    end.

  Definition mon_C07 : verdict :=
    match how_, read_entry_key (x_events o) with
    | FromStore, Some k =>
        let inv := invalidations_since k past [] in
        if existsb (fun u => uri_equiv u (q_url q)) inv then VBad 1 else
        match inv with [] => VNa | _ => VOk end
    | _, _ =>
        match invalidating (q, o) with
        | [] => VNa
        | inv =>
            (* the index of every invalidated URI that was live before this exchange is deleted in it
               (keys are those of the key function, which C03 ties to the normal form) *)
            let before := all_events past in
            let evs := x_events o ++ x_bg_events o in
            let left_live u :=
              let k := make_url_key u in
              match last_index_ids (before ++ evs) k with Some _ => true | None => false end in
            (* ... and nothing else is deleted: every key removed is the index of an invalidated URI or one of its
               variants, so another origin's entries (and other URIs of this one) stay cached *)
            let covered k := existsb (fun u => let ku := make_url_key u in beq k ku || has_prefix (ku ++ [35]) k) inv in
            let stray := existsb (fun ev => match ev with EvDel k true => negb (covered k) | _ => false end) evs in
            if existsb left_live inv then VBad 2 else if stray then VBad 3 else VOk
        end
    end.

  (* C08 — a 304 freshens: merged fields, same body, age restarts (written back with the instants of the
     validation); a full cacheable reply to a validation replaces the entry; other variants stay indexed *)
  (* every index written in this exchange keeps the references it had before, except the one to the
     entry that was read (which may be replaced); if an entry was written under another key, the entry
     read is no longer referenced *)
  Definition read_any_key (evs : list event) : option bytes :=
    match find (fun ev => match ev with EvGetEntry _ _ => true | _ => false end) evs with
    | Some (EvGetEntry k _) => Some k
    | _ => None
    end.
  Fixpoint index_writes_ok (before : list event) (now : list event) (old_key : option bytes)
           (written : list bytes) : Z :=
    match now with
    | [] => 0
    | ev :: r =>
        match ev with
        | EvSetRefs u l =>
            let ids := map (fun x => match x with Some y => r_id y | None => [] end) l in
            let prev := match last_index_ids before u with Some p => p | None => [] end in
            let kept := forallb (fun id => in_names id ids ||
                                           match old_key with Some k => beq id k | None => false end) prev in
            let replaced_gone :=
              match old_key with
              | Some k => negb (existsb (fun w => negb (beq w k)) written) || negb (in_names k ids) ||
                          in_names k written
              | None => true
              end in
            if negb kept then 6 else if negb replaced_gone then 5
            else index_writes_ok (before ++ [ev]) r old_key written
        | EvSetEntry k _ => index_writes_ok (before ++ [ev]) r old_key (k :: written)
        | _ => index_writes_ok (before ++ [ev]) r old_key written
        end
    end.

  Definition mon_C08_frame : verdict :=
    let old := read_any_key (x_events o) in
    let c1 := index_writes_ok prefix (x_events o) old [] in
    let c2 := index_writes_ok (prefix ++ x_events o) (x_bg_events o) old [] in
    if negb (c1 =? 0) then VBad c1 else if negb (c2 =? 0) then VBad (c2 + 10)
    else match set_entries (x_events o ++ x_bg_events o) with [] => VNa | _ => VOk end.

  Definition mon_C08_freshen : verdict :=
    match how_ with
    | Validated i =>
        match stored_, find_call i (x_events o), read_entry_key (x_events o) with
        | Some s, Some (cq, a, b, _), Some k =>
            match scripted_reply script i (is_conditional cq) with
            | RResp nm =>
                let no_store := sd_has (bs "no-store") (spec_cc (q_hdr q)) || sd_has (bs "no-store") (spec_cc (p_hdr nm)) in
                if no_store then VNa else
                match find (fun ke => (e_body (snd ke) =? sv_body s) && (e_status (snd ke) =? sv_status s))
                           (set_entries (x_events o)) with
                | None => VBad 1
                | Some (k', e) =>
                    let omitted := bs "Content-Length" :: spec_hop_by_hop (p_hdr nm) in
                    let fresh_ok := forallb (fun kv => in_names (fst kv) omitted ||
                                       match alookup (fst kv) (e_hdr e) with Some vs => forallb2_eq vs (snd kv) | None => false end)
                                     (p_hdr nm) in
                    let old_ok := forallb (fun kv => amem (fst kv) (p_hdr nm) && negb (in_names (fst kv) omitted) ||
                                       beq (fst kv) (bs "Date") ||
                                       in_names (fst kv) (spec_hop_by_hop (p_hdr nm)) ||
                                       match alookup (fst kv) (e_hdr e) with Some vs => forallb2_eq vs (snd kv) | None => false end)
                                    (sv_hdr s) in
                    (* a 304 without a usable Date is dated by its receipt (RFC 9110 §6.6.1): the age restarts there *)
                    let date_ok := match spec_time (hget (bs "Date") (p_hdr nm)) with
                                   | Some _ => true
                                   | None => beq (hget (bs "Date") (e_hdr e)) (format_imf_fixdate (b / second))
                                   end in
                    if negb ((e_req_at e =? a) && (e_recv_at e =? b)) then VBad 2
                    else if negb fresh_ok then VBad 3
                    else if negb old_ok then VBad 4
                    else if negb date_ok then VBad 5
                    else VOk
                end
            | RErr => VNa
            end
        | _, _, _ => VNa
        end
    | FromOrigin _ => VNa
    | _ => VNa
    end.

  Definition mon_C08 : verdict := vand mon_C08_freshen mon_C08_frame.

  (* C01 / C11 (history part) — the fields the age of a freshened response is computed from are those the
     validation delivered: the entry is written with the instants of the validating exchange, the Age,
     Date, Expires, Cache-Control and Last-Modified of the 304 replace the stored ones, a field of that
     list which the 304 does not carry keeps its stored value, and a 304 without a usable Date is dated by
     its receipt.  (An Age that neither the stored response nor the 304 carried would make every later age
     wrong by that amount.) *)
  Definition age_fields : list bytes :=
    [bs "Age"; bs "Date"; bs "Expires"; bs "Cache-Control"; bs "Last-Modified"].
  Definition age_inputs : verdict :=
    match how_ with
    | Validated i =>
        match stored_, find_call i (x_events o) with
        | Some s, Some (cq, a, b, _) =>
            match scripted_reply script i (is_conditional cq) with
            | RResp nm =>
                match find (fun ke => (e_body (snd ke) =? sv_body s) && (e_status (snd ke) =? sv_status s))
                           (set_entries (x_events o)) with
                | None => VNa
                | Some (_, e) =>
                    let omitted := spec_hop_by_hop (p_hdr nm) in
                    let given n := amem n (p_hdr nm) && negb (in_names n omitted) in
                    let taken := forallb (fun kv => negb (in_names (fst kv) age_fields) || in_names (fst kv) omitted ||
                                    match alookup (fst kv) (e_hdr e) with Some vs => forallb2_eq vs (snd kv) | None => false end)
                                   (p_hdr nm) in
                    let kept := forallb (fun kv => negb (in_names (fst kv) age_fields) || given (fst kv) ||
                                    beq (fst kv) (bs "Date") ||
                                    match alookup (fst kv) (sv_hdr s) with Some vs => forallb2_eq vs (snd kv) | None => false end)
                                   (e_hdr e) in
                    let date_ok := match spec_time (hget (bs "Date") (p_hdr nm)) with
                                   | Some _ => true
                                   | None => beq (hget (bs "Date") (e_hdr e)) (format_imf_fixdate (b / second))
                                   end in
                    if negb ((e_req_at e =? a) && (e_recv_at e =? b)) then VBad 11
                    else if negb taken then VBad 12
                    else if negb kept then VBad 14
                    else if negb date_ok then VBad 13
                    else VOk
                end
            | RErr => VNa
            end
        | _, _ => VNa
        end
    | _ => VNa
    end.

  (* C11 — Age and cache-status fields tell the truth *)
  Definition status_of (r : response) : option cache_status :=
    match hvalues status_header (p_hdr r) with
    | [v] => if beq v (bs "HIT") then Some HIT else if beq v (bs "MISS") then Some MISS
             else if beq v (bs "STALE") then Some STALE else if beq v (bs "REVALIDATED") then Some REVALIDATED
             else if beq v (bs "BYPASS") then Some BYPASS else None
    | _ => None
    end.
  Definition legacy_ok (r : response) (expect : bool) : bool :=
    match hvalues from_cache_header (p_hdr r) with
    | [] => negb expect
    | [v] => expect && beq v (bs "1")
    | _ => false
    end.

  Definition mon_C11 : verdict :=
    match resp_of o with
    | None => VNa
    | Some r =>
        match status_of r with
        | None => VBad 1
        | Some st =>
            match how_ with
            | FromStore =>
                match stored_ with
                | None => VBad 6
                | Some s =>
                    (* stale by the lifetime the cache documents (heuristics are optional, RFC 9111 §4.2.2) *)
                    let stale := doc_lifetime (sv_status s) (sv_hdr s) <=? sv_age s (x_t0 o) in
                    let contacted := match fg_calls o with [] => false | _ => true end in
                    let st_ok :=
                      match st with
                      | HIT => negb contacted && negb stale
                      | STALE => stale || contacted
                      | _ => false
                      end in
                    if negb st_ok then VBad (if stale then 41 else 42)
                    else if negb (legacy_ok r true) then VBad 5
                    else
                      match num_header (bs "Age") (p_hdr r) with
                      | None => VBad 2
                      | Some a =>
                          (* the current age when the response is handed back *)
                          let cur := sv_age s (x_t1 o) / second in
                          if (cur - 1 <=? a) && (a <=? cur + 1) then VOk else VBad 3
                      end
                end
            | Validated _ =>
                if negb (match st with REVALIDATED => true | _ => false end) then VBad 43
                else if negb (legacy_ok r true) then VBad 5 else VOk
            | FromOrigin _ | Synth504 =>
                if negb (match st with MISS | BYPASS => true | _ => false end) then VBad 44
                else if negb (legacy_ok r false) then VBad 5 else VOk
            | _ => VBad 7
            end
        end
    end.

  (* C13 — stale-if-error: when validating a stale stored response fails, the stored response is
     returned iff a stale-if-error window of the stored response or of the request covers its
     staleness and neither must-revalidate nor no-cache applies *)
  Definition mon_C13 : verdict :=
    match stored_, fg_calls o with
    | Some s, [cl] =>
        let now := x_t1 o in
        let failed :=
          match reply_of_call cl with
          | RErr => true
          | RResp rep => (p_status rep =? 500) || (p_status rep =? 502) || (p_status rep =? 503) || (p_status rep =? 504)
          end in
        let stale := sv_life s <=? sv_age s (x_t0 o) in
        if negb stale then VNa else
        let cc := spec_cc (sv_hdr s) in
        let rcc := spec_cc (q_hdr q) in
        let blocked := sd_has (bs "must-revalidate") cc || sv_no_cache_unqualified cc ||
                       sd_has (bs "no-cache") rcc ||
                       match sd_duration (bs "max-age") rcc with Some m => m <=? sv_age s (x_t0 o) | None => false end in
        let in_window w := match w with
                           | Some n => sv_age s now <? sat_add (sv_life s) n
                           | None => false end in
        let allowed := failed && negb blocked &&
                       (in_window (sd_duration (bs "stale-if-error") cc) || in_window (sd_duration (bs "stale-if-error") rcc)) in
        match how_ with
        | FromStore => if allowed then VOk else VBad (if failed then (if blocked then 2 else 1) else 3)
        | FromOrigin _ | Failed => if allowed then VBad 4 else (if failed then VOk else VNa)
        | _ => VNa
        end
    | Some s, [] =>
        (* the validation went on in the background (the stale response was handed out under stale-while-revalidate): a failure
           that stale-if-error covers — clearly inside the window, a second to spare — is not used: it does not take the
           stored response's place either *)
        match bg_calls o with
        | [cl] =>
            let '(_, _, _, b, _) := cl in
            match reply_of_call cl with
            | RResp rep =>
                let failed := (p_status rep =? 500) || (p_status rep =? 502) || (p_status rep =? 503) || (p_status rep =? 504) in
                let cc := spec_cc (sv_hdr s) in
                let rcc := spec_cc (q_hdr q) in
                let blocked := sd_has (bs "must-revalidate") cc || sv_no_cache_unqualified cc || sd_has (bs "no-cache") rcc ||
                               match sd_duration (bs "max-age") rcc with Some m => m <=? sv_age s (x_t0 o) | None => false end in
                let well_inside w := match w with
                                     | Some n => sat_add (sv_age s b) second <? sat_add (sv_life s) n
                                     | None => false end in
                let covered := failed && negb blocked && (sv_life s <=? sv_age s (x_t0 o)) &&
                               (well_inside (sd_duration (bs "stale-if-error") cc) || well_inside (sd_duration (bs "stale-if-error") rcc)) in
                if covered then
                  (if existsb (fun ke => e_status (snd ke) =? p_status rep) (set_entries (x_bg_events o)) then VBad 6 else VOk)
                else VNa
            | RErr => VNa
            end
        | _ => VNa
        end
    | _, _ => VNa
    end.

  (* C10 — no panic, a definite outcome, and an error only when an origin call of this exchange failed *)
  Definition mon_C10 : verdict :=
    match x_result o with
    | Crashed | Done OPanic => VBad 1
    | OutOfModel => VNa
    | Done OErr =>
        if existsb (fun cl => match cl with (_, _, _, _, RErr) => true | _ => false end) (fg_calls o)
        then VOk else VBad 2
    | Done (OResp _) => if x_bg_ok o then VOk else VBad 3
    end.

  Definition some_ref_ids (l : list (option ref)) : list bytes :=
    flat_map (fun x => match x with Some r => [r_id r] | None => [] end) l.

  (* C09 — a fresh, matching, live entry must be served from the store *)
  Fixpoint latest_store (rev_past : hist) : option (request * bytes * stored_entry) :=
    match rev_past with
    | [] => None
    | (qj, oj) :: r =>
        if existsb (fun u => uri_equiv u (q_url q)) (invalidating (qj, oj)) then None
        else if uri_equiv (q_url qj) (q_url q) then
          match rev (set_entries (x_events oj ++ x_bg_events oj)) with
          | (k, e) :: _ => Some (qj, k, e)
          | [] =>
              (* an index rewrite without entry (failed body) may have displaced a reference *)
              if existsb (fun ev => match ev with EvSetRefs _ _ => true | EvDel _ _ => true | _ => false end)
                         (x_events oj ++ x_bg_events oj) then None
              else latest_store r
          end
        else latest_store r
    end.

  (* the Date a reference should carry: that of the entry last written under its id *)
  Definition redate (r : ref) : ref :=
    match last_entry (r_id r) prefix None with
    | Some e => {| r_id := r_id r; r_vary := r_vary r; r_resolved := r_resolved r; r_recv := date_header (e_hdr e) |}
    | None => r
    end.
  (* does the stored response under this reference match the request — decided on the requests themselves (the
     one it was stored or last freshened for, and this one) and the stored response's own Vary, not on what the
     index recorded about them *)
  Definition spec_ref_matches (r : ref) : option bool :=
    match stored_by (r_id r) past None with
    | Some (q0, e) => variant_match (e_hdr e) q0 q
    | None => Some false
    end.
  (* the matching reference with the latest Date, and how many matching ones carry that Date *)
  Fixpoint spec_select (l : list ref) (best : option ref) : option (option ref) :=
    match l with
    | [] => Some best
    | r :: rest =>
        match spec_ref_matches r with
        | None => None
        | Some false => spec_select rest best
        | Some true =>
            spec_select rest (match best with
                              | Some b => if r_recv b <? r_recv r then Some r else best
                              | None => Some r end)
        end
    end.
  Definition matching_at (l : list ref) (t : Z) : Z :=
    Z.of_nat (List.length (filter (fun r => match spec_ref_matches r with Some true => r_recv r =? t | _ => false end) l)).

  Definition mon_C09 : verdict :=
    if negb (plain_get q) then VNa else
    match latest_store (rev past) with
    | None => VNa
    | Some (_, k0, _) =>
        (* the index that lists the latest entry, as last written; among its references that match the
           request the cache is to use the one with the most recent Date (RFC 9111 §4.1) — the Date of
           the stored response, whatever instant the index records; the promise is about that one *)
        let chosen :=
          match fold_left (fun a ev => match ev with
                                       | EvSetRefs _ l => if in_names k0 (some_ref_ids l) then Some l else a
                                       | _ => a end) prefix None with
          | Some l =>
              let rl := map redate (strip_refs l) in
              match spec_select rl None with
              | Some (Some r) => if matching_at rl (r_recv r) =? 1 then Some (r_id r) else None
              | _ => None
              end
          | None => None
          end in
        match chosen with
        | None => VNa
        | Some k =>
        match stored_by k past None with
        | None => VNa
        | Some (q0, e) =>
        if existsb (fun u => uri_equiv u (q_url q)) (invalidations_since k past []) then VNa else
        match call_index (e_hdr e) with
        | None => VNa
        | Some c =>
            match find_call c prefix with
            | None => VNa
            | Some (_, a, b, _) =>
                let s := {| sv_status := e_status e; sv_hdr := e_hdr e; sv_body := e_body e;
                            sv_request_time := a; sv_response_time := b |} in
                let now := x_t0 o in
                let rcc := spec_cc (q_hdr q) in
                let life0 := doc_lifetime (sv_status s) (sv_hdr s) in
                let life := match sd_duration (bs "max-age") rcc with Some m => Z.min life0 m | None => life0 end in
                let min_fresh := match sd_duration (bs "min-fresh") rcc with Some m => m | None => 0 end in
                let very_fresh := sat_add (sat_add (sv_age s now) min_fresh) second <? life in
                if negb (plain_get q0) then VNa
                else match variant_match (e_hdr e) q0 q with
                     | Some true =>
                         if very_fresh && negb (needs_validation_with life0 s q now) && negb (sd_has (bs "no-store") rcc) then
                           match how_, fg_calls o with
                           | FromStore, [] => VOk
                           | _, _ => VBad (if beq k k0 then 1 else 2)
                           end
                         else VNa
                     | _ => VNa
                     end
            end
        end
        end
        end
    end.

  (* C19 — the footprint is bounded by the distinct requests and Vary values seen, whatever the
     number of repetitions *)
  Definition live_keys (evs : list event) : list bytes :=
    fold_left (fun acc ev =>
      match ev with
      | EvSetEntry k _ => if in_names k acc then acc else k :: acc
      | EvSetRefs k _ => if in_names k acc then acc else k :: acc
      | EvDel k _ => filter (fun x => negb (beq x k)) acc
      | _ => acc
      end) evs [].

  Definition hdr_eqb (a b : headers) : bool :=
    (List.length a =? List.length b)%nat &&
    forallb (fun kv => match alookup (fst kv) b with Some vs => forallb2_eq vs (snd kv) | None => false end) a.
  Definition req_eqb (a b : request) : bool :=
    beq (q_method a) (q_method b) && uri_equiv (q_url a) (q_url b) && hdr_eqb (q_hdr a) (q_hdr b).

  Fixpoint count_distinct {A} (eqb : A -> A -> bool) (l : list A) (seen : list A) : Z :=
    match l with
    | [] => 0
    | x :: r => if existsb (eqb x) seen then count_distinct eqb r seen else 1 + count_distinct eqb r (x :: seen)
    end.

  Definition max_index_len (evs : list event) : Z :=
    fold_left (fun acc ev => match ev with EvSetRefs _ l => Z.max acc (Z.of_nat (List.length l)) | _ => acc end) evs 0.

  Definition mon_C19 : verdict :=
    let evs := prefix ++ x_events o ++ x_bg_events o in
    let reqs := q :: map fst past in
    let d := count_distinct req_eqb reqs [] in
    let varys := flat_map (fun ev => match ev with EvSetRefs _ l => flat_map (fun r => match r with Some x => [r_vary x] | None => [] end) l | _ => [] end) evs in
    let v := count_distinct beq varys [] in
    let bound := d + d * (v + 1) in
    (* invalidation removes what it makes unreachable: every entry the index of an invalidated URI listed
       before this exchange is gone after it *)
    let live := live_keys evs in
    let left_behind :=
      existsb (fun u => match last_index_ids prefix (make_url_key u) with
                        | Some ids => existsb (fun id => negb (beq id []) && in_names id live) ids
                        | None => false
                        end) (invalidating (q, o)) in
    (* an index never lists one stored response twice: its length is the number of distinct variants it knows *)
    let duplicate :=
      existsb (fun ev => match ev with
                         | EvSetRefs _ l => let ids := filter (fun id => negb (beq id [])) (map (fun r => match r with Some x => r_id x | None => [] end) l) in
                                            negb (Z.of_nat (List.length ids) =? count_distinct beq ids [])
                         | _ => false end) (x_events o ++ x_bg_events o) in
    if bound <? Z.of_nat (List.length live) then VBad 1
    else if d * (v + 1) <? max_index_len (x_events o ++ x_bg_events o) then VBad 2
    else if left_behind then VBad 3
    else if duplicate then VBad 4
    else VOk.
End Monitors2.

(* ---------- C20: stale-while-revalidate answers at once, one bounded background request ---------- *)
(* T: the effective timeout.  Codes: 1 the caller waited; 2 not exactly one background request where the
   stale response could only be served under stale-while-revalidate; 3 a background request lasted longer
   than T; 4 the stored validators are not on the background request; 5 more than one background request *)
Definition other_allowance (s : stored_view) (q : request) (now : Z) : bool :=
  let rcc := spec_cc (q_hdr q) in
  sd_has (bs "only-if-cached") rcc ||
  match sd_arg (bs "max-stale") rcc with Some _ => true | None => false end.

Definition mon_C20 (T : Z) script (prefix_events : list event) (q : request) (o : exchange_obs) : verdict :=
  let bg := bg_calls o in
  let bounded := forallb (fun c => match c with (_, _, a, b, _) => b - a <=? T end) bg in
  let general := if negb bounded then VBad 3 else if 1 <? Z.of_nat (List.length bg) then VBad 5 else
                 match bg with [] => VNa | _ => VOk end in
  match classify script o, fg_calls o, stored_of prefix_events o with
  | FromStore, [], Some s =>
      if negb (fresh_enough s q (x_t0 o)) && negb (other_allowance s q (x_t0 o)) && staleness_allowed s q (x_t0 o) then
        (* served stale, and only stale-while-revalidate permits it *)
        if negb (x_t1 o =? x_t0 o) then VBad 1
        else match bg with
             | [(_, bq, _, _, _)] =>
                 let et := hget (bs "ETag") (sv_hdr s) in
                 let lm := hget (bs "Last-Modified") (sv_hdr s) in
                 if (beq et [] || beq (hget (bs "If-None-Match") (q_hdr bq)) et) &&
                    (beq lm [] || beq (hget (bs "If-Modified-Since") (q_hdr bq)) lm)
                 then vand VOk general else VBad 4
             | _ => VBad 2
             end
      else general
  | _, _, _ => general
  end.

(* ---------- all monitors over a whole observed history ---------- *)
Fixpoint monitor_all_from (T : Z) (script : list (Z * origin_reply * origin_reply)) (past : hist) (h : hist)
  : list (how * list (bytes * verdict)) :=
  match h with
  | [] => []
  | (q, o) :: r =>
      let prefix := all_events past in
      (classify script o,
       [(bs "C01", vand (mon_C01 script prefix q o) (age_inputs script past o)); (bs "C02", vand (vand (mon_C02 script prefix q o) (age_inputs script past o)) (mon_C02q script past o));
        (bs "C03", mon_C03 script past q o); (bs "C04", mon_C04 script past q o);
        (bs "C05", mon_C05 script past o); (bs "C06", mon_C06 script q o);
        (bs "C07", mon_C07 script past q o); (bs "C08", mon_C08 script past q o);
        (bs "C09", vand (mon_C09 script past q o) (age_inputs script past o)); (bs "C10", mon_C10 o); (bs "C11", vand (mon_C11 script past o) (age_inputs script past o));
        (bs "C13", vand (mon_C13 script past q o) (age_inputs script past o)); (bs "C18", mon_C18 script prefix q o);
        (bs "C19", mon_C19 past q o); (bs "C20", mon_C20 T script prefix q o)])
      :: monitor_all_from T script (past ++ [(q, o)]) r
  end.

(* [swr_setting]: the WithSWRTimeout argument of the case *)
Definition monitor_all (swr_setting : Z) script (h : hist) := monitor_all_from (effective_swr_timeout swr_setting) script [] h.
