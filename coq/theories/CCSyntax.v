(* CCSyntax.v — the abstract syntax of a Cache-Control field (RFC 9111 §5.2, RFC 9110 §5.6) and its
   spellings: what C12 quantifies over.  A field is a list of directives (name, argument); a spelling
   chooses, per directive, the letter case of the name, the argument form (none / token /
   quoted-string with any set of quoted-pairs), optional whitespace around the element, and where
   empty list elements and field-line breaks go. *)
From HC Require Export CC.
Open Scope Z_scope.

Definition is_ows (c : Z) : bool := (c =? 32) || (c =? 9).

Record directive := { dn : bytes (* lower-case token *); da : bytes (* argument; empty = none *) }.

Inductive aform := FBare | FToken | FQuoted (mask : list bool).
Record dspell := { s_name : bytes; s_form : aform; s_pre : bytes; s_post : bytes }.

Definition mask_next (m : list bool) : bool * list bool :=
  match m with e :: m' => (e, m') | [] => (false, []) end.

(* the inside of a quoted-string: each byte as itself or as a quoted-pair *)
Fixpoint quote_body (a : bytes) (m : list bool) : bytes :=
  match a with
  | [] => []
  | c :: r => (if fst (mask_next m) then [92; c] else [c]) ++ quote_body r (snd (mask_next m))
  end.
Fixpoint quote_ok (a : bytes) (m : list bool) : bool :=
  match a with
  | [] => true
  | c :: r => (fst (mask_next m) || valid_qdtext c) && quote_ok r (snd (mask_next m))
  end.

Definition render_arg (f : aform) (a : bytes) : bytes :=
  match f with
  | FBare => []
  | FToken => 61 :: a
  | FQuoted m => 61 :: 34 :: quote_body a m ++ [34]
  end.
Definition form_ok (f : aform) (a : bytes) : bool :=
  match f with
  | FBare => beq a []
  | FToken => forallb is_tchar a
  | FQuoted m => quote_ok a m
  end.

Definition spell_ok (d : directive) (s : dspell) : bool :=
  negb (beq (dn d) []) && forallb is_tchar (s_name s) && beq (lower (s_name s)) (dn d) &&
  form_ok (s_form s) (da d) && forallb is_ows (s_pre s) && forallb is_ows (s_post s).

Inductive element := EDir (d : directive) (s : dspell) | EEmpty (ws : bytes).

Definition core (d : directive) (s : dspell) : bytes := s_name s ++ render_arg (s_form s) (da d).
Definition render_elem (e : element) : bytes :=
  match e with
  | EDir d s => s_pre s ++ core d s ++ s_post s
  | EEmpty ws => ws
  end.
Definition elem_ok (e : element) : bool :=
  match e with EDir d s => spell_ok d s | EEmpty ws => forallb is_ows ws end.

(* one field line; several lines *)
Definition render_line (es : list element) : bytes := join [44] (map render_elem es).
Definition render_lines (ls : list (list element)) : list bytes := map render_line ls.

Fixpoint dirs_of (es : list element) : list directive :=
  match es with
  | [] => []
  | EDir d _ :: r => d :: dirs_of r
  | EEmpty _ :: r => dirs_of r
  end.

(* the meaning: the argument of the last directive of that name — except for no-cache, whose occurrences add up
   (unqualified as soon as one of them is; otherwise all their field names, the combined list being read once more as
   a quoted-string would, which leaves a list of field names as it is) *)
Definition step_meaning (n : bytes) (acc : option bytes) (a : bytes) : option bytes :=
  match acc with
  | Some s => if beq n no_cache_name then Some (parse_quoted_string (merge_args s a)) else Some a
  | None => Some a
  end.
Definition find_merged (n : bytes) (kvs : list (bytes * bytes)) (acc : option bytes) : option bytes :=
  fold_left (fun acc kv => if beq n (fst kv) then step_meaning n acc (snd kv) else acc) kvs acc.
Definition meaning (ds : list directive) (n : bytes) : option bytes :=
  find_merged n (map (fun d => (dn d, da d)) ds) None.

(* the canonical spelling: lower-case name, token argument when it is a token, else quoted; no
   whitespace, no empty elements, one line *)
Definition canon_spell (d : directive) : dspell :=
  {| s_name := dn d;
     s_form := match da d with [] => FBare | _ => if forallb is_tchar (da d) then FToken else FQuoted [] end;
     s_pre := []; s_post := [] |}.
Definition canon_line (ds : list directive) : list element := map (fun d => EDir d (canon_spell d)) ds.
