(* driver.ml — line-oriented front end of the extracted model (hand-written glue; trusted base).
   Reads commands from stdin (or a file given as argv[1]), writes results to stdout.
   Byte strings are hex-encoded with a leading 'x' (the empty string is "x"). *)
open Model
type string = Stdlib.String.t
module String = Stdlib.String
module List = Stdlib.List
module Array = Stdlib.Array
module Buffer = Stdlib.Buffer
module Char = Stdlib.Char
module Printf = Stdlib.Printf

let rec pos_of_int n =
  if n = 1 then XH else if n land 1 = 0 then XO (pos_of_int (n lsr 1)) else XI (pos_of_int (n lsr 1))
let z_of_int n = if n = 0 then Z0 else if n > 0 then Zpos (pos_of_int n) else Zneg (pos_of_int (-n))
let rec int_of_pos = function XH -> 1 | XO p -> 2 * int_of_pos p | XI p -> 2 * int_of_pos p + 1
let int_of_z = function Z0 -> 0 | Zpos p -> int_of_pos p | Zneg p -> - (int_of_pos p)

let bytes_of_string (s : string) : bytes = List.init (String.length s) (fun i -> z_of_int (Char.code s.[i]))
let string_of_bytes (b : bytes) : string =
  let a = Array.of_list b in
  String.init (Array.length a) (fun i -> Char.chr ((int_of_z a.(i)) land 255))

(* decimal <-> Z through the model's own functions, so that values beyond OCaml's int are exact *)
let z_of_dec (s : string) : z =
  if String.length s > 0 && s.[0] = '-' then
    (match digits_val Z0 (bytes_of_string (String.sub s 1 (String.length s - 1))) with
     | Z0 -> Z0 | Zpos p -> Zneg p | Zneg p -> Zpos p)
  else digits_val Z0 (bytes_of_string s)
let dec_of_z (v : z) : string = string_of_bytes (dec_of_Z v)

let hexval c = match c with
  | '0'..'9' -> Char.code c - 48 | 'a'..'f' -> Char.code c - 87 | 'A'..'F' -> Char.code c - 55
  | _ -> failwith "bad hex"
let unhex (t : string) : bytes =
  if String.length t = 0 || t.[0] <> 'x' then failwith ("bad hex token: " ^ t);
  let n = (String.length t - 1) / 2 in
  List.init n (fun i -> z_of_int (hexval t.[1 + 2*i] * 16 + hexval t.[2 + 2*i]))
let hex (b : bytes) : string =
  let buf = Buffer.create 16 in
  Buffer.add_char buf 'x';
  List.iter (fun c -> Buffer.add_string buf (Printf.sprintf "%02x" ((int_of_z c) land 255))) b;
  Buffer.contents buf

(* ---- token cursor ---- *)
type cur = { toks : string array; mutable pos : int }
let mk line = { toks = Array.of_list (List.filter (fun s -> s <> "") (String.split_on_char ' ' line)); pos = 0 }
let next c = let t = c.toks.(c.pos) in c.pos <- c.pos + 1; t
let next_int c = int_of_string (next c)
let next_z c = z_of_dec (next c)
let next_b c = unhex (next c)
let rec rep n f = if n <= 0 then [] else let x = f () in x :: rep (n - 1) f

let read_headers c : headers =
  let nh = next_int c in
  rep nh (fun () ->
    let name = next_b c in
    let nv = next_int c in
    let vals = rep nv (fun () -> next_b c) in
    (name, vals))

(* ---- printing ---- *)
let cmp_bytes a b = Stdlib.compare (string_of_bytes a) (string_of_bytes b)
let pr_headers buf (h : headers) =
  let h = List.sort (fun (a, _) (b, _) -> cmp_bytes a b) h in
  Buffer.add_string buf (Printf.sprintf " %d" (List.length h));
  List.iter (fun (n, vs) ->
    Buffer.add_string buf (Printf.sprintf " %s %d" (hex n) (List.length vs));
    List.iter (fun v -> Buffer.add_string buf (" " ^ hex v)) vs) h

let pr_event buf (ev : event) =
  match ev with
  | EvGetRefs (k, f) -> Buffer.add_string buf (Printf.sprintf " G %s %d" (hex k) (if f then 1 else 0))
  | EvGetEntry (k, f) -> Buffer.add_string buf (Printf.sprintf " g %s %d" (hex k) (if f then 1 else 0))
  | EvSetEntry (k, e) ->
      Buffer.add_string buf (Printf.sprintf " S %s %s %s %s %s" (hex k) (dec_of_z e.e_body)
        (dec_of_z e.e_status) (dec_of_z e.e_req_at) (dec_of_z e.e_recv_at));
      pr_headers buf e.e_hdr
  | EvSetRefs (k, l) ->
      Buffer.add_string buf (Printf.sprintf " I %s %d" (hex k) (List.length l));
      List.iter (fun ro ->
        match ro with
        | None -> Buffer.add_string buf " N"
        | Some r ->
            Buffer.add_string buf (Printf.sprintf " R %s %s %s %d" (hex r.r_id) (hex r.r_vary)
              (dec_of_z r.r_recv) (List.length r.r_resolved));
            List.iter (fun (k, v) -> Buffer.add_string buf (Printf.sprintf " %s %s" (hex k) (hex v)))
              (List.sort (fun (a, _) (b, _) -> cmp_bytes a b) r.r_resolved)) l
  | EvDel (k, f) -> Buffer.add_string buf (Printf.sprintf " D %s %d" (hex k) (if f then 1 else 0))
  | EvCall (idx, q, t0, t1, rep) ->
      Buffer.add_string buf (Printf.sprintf " C %s %s %s %s %s" (dec_of_z idx) (dec_of_z t0) (dec_of_z t1)
        (match rep with RErr -> "E" | RResp _ -> "R") (hex q.q_method));
      pr_headers buf q.q_hdr

let pr_events buf evs =
  Buffer.add_string buf (Printf.sprintf " %d" (List.length evs));
  List.iter (pr_event buf) evs

let pr_obs case k (o : exchange_obs) =
  let buf = Buffer.create 256 in
  Buffer.add_string buf (Printf.sprintf "X %s %d %s %s" case k (dec_of_z o.x_t0) (dec_of_z o.x_t1));
  (match o.x_result with
   | Done (OResp r) ->
       Buffer.add_string buf (Printf.sprintf " R %s %s %d" (dec_of_z r.p_status) (dec_of_z r.p_body)
         (if r.p_body_ok then 1 else 0));
       pr_headers buf r.p_hdr
   | Done OErr -> Buffer.add_string buf " E"
   | Done OPanic | Crashed -> Buffer.add_string buf " P"
   | OutOfModel -> Buffer.add_string buf " U");
  pr_events buf o.x_events;
  Buffer.add_string buf (if o.x_bg_ok then " 1" else " 0");
  pr_events buf o.x_bg_events;
  print_endline (Buffer.contents buf)

(* ---- case state ---- *)
let case_id = ref ""
let case_cfg = ref Z0
let case_t0 = ref Z0
let case_reqs : (z * request) list Stdlib.ref = ref []
let case_script : ((z * origin_reply) * origin_reply) list Stdlib.ref = ref []

let parse_req c : (z * request) option =
  let gap = next_z c in
  let m = next_b c in
  let u = next_b c in
  let h = read_headers c in
  match parse_url u with
  | Some ((url, has_scheme), has_auth) when has_scheme && has_auth ->
      Some (gap, { q_method = m; q_url = url; q_hdr = h })
  | _ -> None

let unmodelled = ref false
let store_kind = ref ""
let store_ops : sop list Stdlib.ref = ref []

let pr_sres tag id i (r : sres) (is_keys_op : bool) nokeys =
  let body =
    if is_keys_op && nokeys then "nokeys" else
    match r with
    | ROk -> "ok"
    | RVal v -> "val " ^ hex v
    | RNotExist -> "notexist"
    | RFail -> "fail"
    | RKeys l -> Printf.sprintf "keys %d%s" (List.length l) (String.concat "" (List.map (fun k -> " " ^ hex k) l)) in
  print_endline (Printf.sprintf "%s %s %d %s" tag id i body)

let store_end () =
  let ops = List.rev !store_ops in
  let is_keys = List.map (fun o -> match o with OKeys _ -> true | _ -> false) ops in
  let nokeys = (!store_kind = "mem") in
  let spec = run_ops spec_step [] ops in
  let modl = if !store_kind = "mem" then spec else run_ops fs_step [] ops in
  List.iteri (fun i r -> pr_sres "SR" !case_id i r (List.nth is_keys i) nokeys) modl;
  List.iteri (fun i r -> pr_sres "SS" !case_id i r (List.nth is_keys i) nokeys) spec

let unmodelled_any = ref false

(* ---- concurrent cases (C16) ---- *)
let conc_mode = ref false
let conc_phases : ((z * request list) * label list) list Stdlib.ref = ref []   (* reversed *)
let cur_gap = ref Z0
let cur_reqs : request list Stdlib.ref = ref []
let parse_label (t : string) : label =
  if t = "t" then Tick else
  let n = int_of_string (String.sub t 1 (String.length t - 1)) in
  let rec nat_of k = if k <= 0 then O else S (nat_of (k - 1)) in
  if t.[0] = 'f' then F (nat_of n) else B (nat_of n)
let rec int_of_nat = function O -> 0 | S k -> 1 + int_of_nat k
let label_str = function F i -> Printf.sprintf "f%d" (int_of_nat i) | B j -> Printf.sprintf "b%d" (int_of_nat j) | Tick -> "t"

let conc_end () =
  if !unmodelled then print_endline (Printf.sprintf "CX %s 0 U" !case_id)
  else begin
    let phs = List.rev !conc_phases in
    let obs = run_phases (effective_swr_timeout !case_cfg) phs (init_world !case_t0 (List.rev !case_script)) in
    List.iteri (fun pi (o : phase_obs) ->
      let buf = Buffer.create 512 in
      Buffer.add_string buf (Printf.sprintf "CX %s %d %d" !case_id pi (List.length o.po_results));
      List.iter (fun r ->
        match r with
        | Some (Done (OResp r)) ->
            Buffer.add_string buf (Printf.sprintf " R %s %s %d" (dec_of_z r.p_status) (dec_of_z r.p_body) (if r.p_body_ok then 1 else 0));
            pr_headers buf r.p_hdr
        | Some (Done OErr) -> Buffer.add_string buf " E"
        | Some (Done OPanic) | Some Crashed -> Buffer.add_string buf " P"
        | Some OutOfModel -> Buffer.add_string buf " U"
        | None -> Buffer.add_string buf " W") o.po_results;
      Buffer.add_string buf (Printf.sprintf " %d" (List.length o.po_trace));
      List.iter (fun (l, ev) -> Buffer.add_string buf (" " ^ label_str l); pr_event buf ev) o.po_trace;
      Buffer.add_string buf (Printf.sprintf " | performed=%d quiescent=%b bg_ok=%b" (int_of_nat o.po_performed) o.po_quiescent o.po_bg_ok);
      print_endline (Buffer.contents buf)) obs
  end

let handle_line line =
  let c = mk line in
  if Array.length c.toks = 0 then () else
  match next c with
  | "CASE" ->
      case_id := next c; ignore (next c); case_cfg := next_z c; case_t0 := next_z c;
      case_reqs := []; case_script := []; unmodelled := false; unmodelled_any := false; conc_mode := false
  | "CCASE" ->
      case_id := next c; ignore (next c); case_cfg := next_z c; case_t0 := next_z c;
      case_reqs := []; case_script := []; unmodelled := false; unmodelled_any := false;
      conc_mode := true; conc_phases := []; cur_reqs := []
  | "FAULT" -> ()   (* store faults of monitor-only cases: the model's store does not fail *)
  | "PHASE" ->
      cur_gap := next_z c; cur_reqs := []
  | "SCHED" ->
      let n = next_int c in
      let ls = rep n (fun () -> parse_label (next c)) in
      conc_phases := ((!cur_gap, List.rev !cur_reqs), ls) :: !conc_phases
  | "REQ" when !conc_mode ->
      (match parse_req c with
       | Some (_, r) -> cur_reqs := r :: !cur_reqs
       | None -> unmodelled := true)
  | "REQ" ->
      (match parse_req c with
       | Some r -> case_reqs := r :: !case_reqs
       | None -> unmodelled := true)
  | "REP" ->
      let delay = next_z c in
      let read_rep () =
        let kind = next c in
        let status = next_z c in
        let bodyok = next_int c = 1 in
        let h = read_headers c in
        if kind = "E" then RErr
        else RResp { p_status = status; p_hdr = h; p_body = Z0; p_body_ok = bodyok } in
      let r1 = read_rep () in
      let r2 = read_rep () in
      case_script := ((delay, r1), r2) :: !case_script
  | "END" when !store_kind <> "" ->
      store_end (); store_kind := ""
  | "END" when !conc_mode ->
      conc_end (); conc_mode := false
  | "END" ->
      if !unmodelled then print_endline (Printf.sprintf "X %s 0 0 0 U 0 1 0" !case_id)
      else begin
        let obs = run_history !case_cfg (List.rev !case_reqs) (init_world !case_t0 (List.rev !case_script)) in
        List.iteri (fun k o -> pr_obs !case_id k o) obs
      end
  | "KEY" ->
      let u = next_b c in
      (match parse_url u with
       | Some ((url, true), true) -> print_endline ("K " ^ hex (make_url_key url))
       | _ -> print_endline "K -")
  | "CC" ->
      let d = parse_directives (next_b c) in
      let buf = Buffer.create 64 in
      Buffer.add_string buf (Printf.sprintf "CC %d" (List.length d));
      List.iter (fun (k, v) -> Buffer.add_string buf (Printf.sprintf " %s %s" (hex k) (hex v)))
        (List.sort (fun (a, _) (b, _) -> cmp_bytes a b) d);
      print_endline (Buffer.contents buf)
  | "NORM" ->
      let f = next_b c in
      let v = next_b c in
      (match normalize_header_value f v with
       | Some r -> print_endline ("N " ^ hex r)
       | None -> print_endline "N -")
  | "DATE" ->
      (match parse_imf_fixdate (next_b c) with
       | Some t -> print_endline ("T " ^ dec_of_z t)
       | None -> print_endline "T -")
  | "SYSCALLS" ->
      let name = function
        | SysOpenExclTmp -> "open_excl_tmp" | SysWrite -> "write" | SysFsync -> "fsync" | SysClose -> "close"
        | SysRenameTmpFinal -> "rename_tmp_final" | SysUnlinkTmp -> "unlink_tmp" | SysOpenReadFinal -> "open_read_final"
        | SysRead -> "read" | SysUnlinkFinal -> "unlink_final" in
      let pr tag l = print_endline (tag ^ " " ^ String.concat " " (List.map name l)) in
      pr "SET" set_program; pr "GET" get_program; pr "DELETE" delete_program
  | "WIRE" ->
      (* WIRE <hex of the stored bytes> : the model's reading of a stored entry *)
      let raw = next_b c in
      (match parse_entry raw with
       | None -> print_endline "WR fail"
       | Some e ->
           let m = e.we_msg in
           let tbl : (string, string list) Stdlib.Hashtbl.t = Stdlib.Hashtbl.create 16 in
           let order = Stdlib.ref [] in
           List.iter (fun l ->
             match cut (z_of_int 58) l with
             | Some (k, v) ->
                 let k' = string_of_bytes (canonical_key (tp_trim k)) in
                 let v' = hex (tp_trim v) in
                 (match Stdlib.Hashtbl.find_opt tbl k' with
                  | Some vs -> Stdlib.Hashtbl.replace tbl k' (vs @ [v'])
                  | None -> Stdlib.Hashtbl.add tbl k' [v']; order := k' :: !order)
             | None -> ()) m.wm_fields;
           let names = List.sort Stdlib.compare !order in
           let buf = Buffer.create 256 in
           Buffer.add_string buf (Printf.sprintf "WR ok %s %s %d" (hex e.we_id) (dec_of_z m.wm_status) (List.length names));
           List.iter (fun n ->
             let vs = Stdlib.Hashtbl.find tbl n in
             Buffer.add_string buf (Printf.sprintf " %s %d %s" (hex (bytes_of_string n)) (List.length vs) (String.concat " " vs))) names;
           Buffer.add_string buf (" " ^ hex m.wm_body);
           print_endline (Buffer.contents buf))
  | "SWRX" ->
      (* SWRX <setting|U> <latency|N> <cancel|N> <caller deadline|N> : all in ns *)
      let opt t = if t = "U" || t = "N" then None else Some (z_of_dec t) in
      let st = opt (next c) in let la = opt (next c) in let ca = opt (next c) in let dl = opt (next c) in
      let o = swr_predict { xp_setting = st; xp_latency = la; xp_cancel = ca; xp_deadline = dl } in
      Printf.printf "P fg_latency=%s bg_calls=%s deadline=%s bg_end=%s cancelled=%b goroutines_left=%s\n"
        (dec_of_z o.so_fg_latency) (dec_of_z o.so_bg_calls) (dec_of_z o.so_deadline) (dec_of_z o.so_request_end)
        o.so_cancelled (dec_of_z o.so_goroutines_left)
  | "ENC" ->
      (* ENC U <encrypt> <encrypt_key> <env key>   |   ENC O <option key> *)
      let how = next c in
      let r = if how = "U" then (let e = next_b c in let k = next_b c in let v = next_b c in from_url_go e k v)
              else with_encryption_go (next_b c) in
      (match r with
       | OpenErr -> print_endline "W err"
       | OpenOk None -> print_endline "W plain"
       | OpenOk (Some k) -> print_endline ("W key:" ^ hex k))
  | "SCASE" ->
      case_id := next c; store_kind := next c; store_ops := []
  | "OP" ->
      let k = next c in
      let op = match k with
        | "S" -> let key = next_b c in let v = next_b c in OSet (key, v)
        | "G" -> OGet (next_b c)
        | "D" -> ODel (next_b c)
        | "K" -> OKeys (next_b c)
        | _ -> OReopen in
      store_ops := op :: !store_ops
  | t -> failwith ("unknown command " ^ t)


(* ---- parsing observation lines (the implementation's, or the model's own) ---- *)
let dummy_url = { u_scheme = []; u_host = []; u_path = []; u_query = []; u_force_query = false }

let rec read_event c : event =
  match next c with
  | "G" -> let k = next_b c in let f = next_int c = 1 in EvGetRefs (k, f)
  | "g" -> let k = next_b c in let f = next_int c = 1 in EvGetEntry (k, f)
  | "S" ->
      let k = next_b c in
      let body = next_z c in
      let status = next_z c in
      let ra = next_z c in
      let rb = next_z c in
      let h = read_headers c in
      EvSetEntry (k, { e_id = k; e_status = status; e_hdr = h; e_body = body; e_req_at = ra; e_recv_at = rb })
  | "I" ->
      let k = next_b c in
      let n = next_int c in
      let l = rep n (fun () ->
        match next c with
        | "N" -> None
        | _ ->
            let id = next_b c in
            let vary = next_b c in
            let recv = next_z c in
            let nr = next_int c in
            let res = rep nr (fun () -> let a = next_b c in let b = next_b c in (a, b)) in
            Some { r_id = id; r_vary = vary; r_resolved = res; r_recv = recv }) in
      EvSetRefs (k, l)
  | "D" -> let k = next_b c in let f = next_int c = 1 in EvDel (k, f)
  | "C" ->
      let idx = next_z c in
      let t0 = next_z c in
      let t1 = next_z c in
      let kind = next c in
      let m = next_b c in
      let h = read_headers c in
      EvCall (idx, { q_method = m; q_url = dummy_url; q_hdr = h }, t0, t1,
              (if kind = "E" then RErr
               else RResp { p_status = Z0; p_hdr = []; p_body = Z0; p_body_ok = true }))
  | "F" -> (* a store write that the fault injector suppressed: not an event of the store *)
      ignore (read_event c); EvGetRefs ([], false)
  | t -> failwith ("unknown event " ^ t)

let read_events c : event list =
  let n = next_int c in
  if n < 0 then [] else rep n (fun () -> read_event c)

(* "X case k t0 t1 <res> ... <fg events> <bgok> <bg events>" -> (case, k, obs) *)
let parse_obs line : string * int * exchange_obs =
  let c = mk line in
  ignore (next c);
  let case = next c in
  let k = next_int c in
  let t0 = next_z c in
  let t1 = next_z c in
  let res =
    match next c with
    | "R" ->
        let status = next_z c in
        let body = next_z c in
        let ok = next_int c = 1 in
        let h = read_headers c in
        Done (OResp { p_status = status; p_hdr = h; p_body = body; p_body_ok = ok })
    | "E" -> Done OErr
    | "P" -> Crashed
    | "Z" -> Done OPanic
    | _ -> OutOfModel in
  let fg = read_events c in
  let bgok = next_int c = 1 in
  let bg = read_events c in
  (case, k, { x_t0 = t0; x_t1 = t1; x_result = res; x_events = fg; x_bg_ok = bgok; x_bg_events = bg })

let verdict_str = function VNa -> "na" | VOk -> "ok" | VBad c -> "bad:" ^ dec_of_z c
let how_str = function
  | FromOrigin i -> "origin:" ^ dec_of_z i | Validated i -> "validated:" ^ dec_of_z i
  | FromStore -> "store" | Synth504 -> "504" | Failed -> "err" | Panicked -> "panic" | Other -> "other"

let monitor_mode cases_file obs_file =
  let tbl : (string, (int * exchange_obs) list) Stdlib.Hashtbl.t = Stdlib.Hashtbl.create 1024 in
  let ic = open_in obs_file in
  (try while true do
     let line = input_line ic in
     if String.length line > 0 then begin
       let (case, k, o) = parse_obs line in
       let prev = try Stdlib.Hashtbl.find tbl case with Not_found -> [] in
       Stdlib.Hashtbl.replace tbl case ((k, o) :: prev)
     end
   done with End_of_file -> close_in ic);
  let ic = open_in cases_file in
  (try while true do
     let line = input_line ic in
     let c = mk line in
     if Array.length c.toks > 0 then
       match c.toks.(0) with
       | "END" ->
           let obs = try List.rev (Stdlib.Hashtbl.find tbl !case_id) with Not_found -> [] in
           let reqs = Array.of_list (List.rev !case_reqs) in
           if not !unmodelled_any then begin
             let h = List.filter_map (fun (k, o) ->
               if k < Array.length reqs then Some (snd reqs.(k), o) else None) obs in
             let vs = monitor_all !case_cfg (List.rev !case_script) h in
             List.iteri (fun k (hw, l) ->
               let buf = Buffer.create 128 in
               let wf = if k < Array.length reqs && url_wf (snd reqs.(k)).q_url then 1 else 0 in
               Buffer.add_string buf (Printf.sprintf "M %s %d how=%s urlwf=%d" !case_id k (how_str hw) wf);
               List.iter (fun (n, v) -> Buffer.add_string buf (Printf.sprintf " %s=%s" (string_of_bytes n) (verdict_str v))) l;
               print_endline (Buffer.contents buf)) vs
           end
       | _ -> handle_line line
   done with End_of_file -> close_in ic)

let () =
  if Array.length Sys.argv > 3 && Sys.argv.(1) = "--monitor" then monitor_mode Sys.argv.(2) Sys.argv.(3) else
  let ic = if Array.length Sys.argv > 1 then open_in Sys.argv.(1) else stdin in
  (try
    while true do
      handle_line (input_line ic)
    done
  with End_of_file -> ())
